module verif/maprw

go 1.22.12

require golang.org/x/tools v0.29.0

require (
	golang.org/x/mod v0.22.0 // indirect
	golang.org/x/sync v0.10.0 // indirect
)
