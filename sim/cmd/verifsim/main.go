// Command verifsim runs the deterministic-simulation checks.
//
//	verifsim run <property> [--tier quick|thorough] [--runs N]
//	verifsim replay <property> <file>
//	verifsim replay-child <file>
//	verifsim hashes <property> <part> <runs>      (determinism self-test: prints run index + trace hash)
package main

import (
	"encoding/json"
	"fmt"
	"os"
	"path/filepath"
	"sort"
	"strconv"

	"verif/sim/registry"
	"verif/sim/simkit"
)

func main() {
	os.Exit(run())
}

func opts() simkit.Options {
	o := simkit.Options{Tier: "quick", Seed: 1, Root: "/verif"}
	if v := os.Getenv("VERIF_ROOT"); v != "" {
		o.Root = v
	}
	if v := os.Getenv("VERIF_TIER"); v != "" {
		o.Tier = v
	}
	if v := os.Getenv("VERIF_SEED"); v != "" {
		if n, err := strconv.ParseInt(v, 10, 64); err == nil {
			o.Seed = uint64(n)
		}
	}
	o.OutRoot = os.Getenv("VERIF_OUT")
	o.AtlasBin = os.Getenv("ATLAS_BIN")
	if self, err := os.Executable(); err == nil {
		o.Self, _ = filepath.Abs(self)
	}
	return o
}

func run() (code int) {
	defer func() {
		if p := recover(); p != nil {
			fmt.Fprintf(os.Stderr, "harness: %v\n", p)
			code = simkit.ExitHarness
		}
	}()
	args := os.Args[1:]
	if len(args) == 1 && args[0] == "list" {
		ids := registry.All()
		sort.Strings(ids)
		for _, id := range ids {
			fmt.Println(id)
		}
		return 0
	}
	if len(args) == 2 && args[0] == "needs-cli" {
		c := registry.Get(args[1])
		if c != nil {
			for _, p := range c.Parts {
				if p.NeedsCLI {
					return 0
				}
			}
		}
		return 1
	}
	if len(args) < 2 {
		fmt.Fprintln(os.Stderr, "usage: verifsim run|replay|replay-child|hashes ...")
		return simkit.ExitHarness
	}
	o := opts()
	switch args[0] {
	case "run":
		c := registry.Get(args[1])
		if c == nil {
			fmt.Fprintf(os.Stderr, "harness: unknown property %q\n", args[1])
			return simkit.ExitHarness
		}
		for i := 2; i < len(args); i++ {
			switch args[i] {
			case "--tier":
				i++
				o.Tier = args[i]
			case "--runs":
				i++
				o.RunsOverride, _ = strconv.Atoi(args[i])
			}
		}
		if o.Tier != "quick" && o.Tier != "thorough" {
			fmt.Fprintf(os.Stderr, "harness: bad tier %q\n", o.Tier)
			return simkit.ExitHarness
		}
		return simkit.RunCheck(c, o)
	case "replay":
		if len(args) < 3 {
			return simkit.ExitHarness
		}
		c := registry.Get(args[1])
		if c == nil {
			return simkit.ExitHarness
		}
		return simkit.Replay(c, args[2], o, false)
	case "replay-child":
		b, err := os.ReadFile(args[1])
		if err != nil {
			return simkit.ExitHarness
		}
		var rf simkit.ReplayFile
		if json.Unmarshal(b, &rf) != nil {
			return simkit.ExitHarness
		}
		c := registry.Get(rf.Property)
		if c == nil {
			return simkit.ExitHarness
		}
		return simkit.Replay(c, args[1], o, true)
	case "shard":
		if len(args) < 7 {
			return simkit.ExitHarness
		}
		c := registry.Get(args[1])
		if c == nil {
			return simkit.ExitHarness
		}
		seed, _ := strconv.ParseUint(args[4], 10, 64)
		from, _ := strconv.Atoi(args[5])
		to, _ := strconv.Atoi(args[6])
		scratch, err := simkit.ScratchRoot()
		if err != nil {
			return simkit.ExitHarness
		}
		defer os.RemoveAll(scratch)
		return simkit.RunShard(c, args[2], args[3], seed, from, to, simkit.Env{AtlasBin: o.AtlasBin, Scratch: scratch})
	case "one":
		// verifsim one <property> <part> <run-index>: runs a single run of the batch and prints its result.
		if len(args) < 4 {
			return simkit.ExitHarness
		}
		c := registry.Get(args[1])
		if c == nil {
			return simkit.ExitHarness
		}
		idx, _ := strconv.ParseUint(args[3], 10, 64)
		return simkit.One(c, args[2], o, idx)
	case "racechild":
		seed, _ := strconv.ParseUint(args[1], 10, 64)
		return registry.RaceChild(seed)
	case "detop":
		if registry.Detop == nil || len(args) < 3 {
			return simkit.ExitHarness
		}
		a, _ := strconv.ParseUint(args[1], 10, 64)
		b, _ := strconv.ParseUint(args[2], 10, 64)
		fmt.Println(registry.Detop(a, b))
		return 0
	case "hashes":
		if len(args) < 4 {
			return simkit.ExitHarness
		}
		c := registry.Get(args[1])
		n, _ := strconv.Atoi(args[3])
		return simkit.Hashes(c, args[2], o, n)
	}
	return simkit.ExitHarness
}
