// Package simkit is the deterministic-simulation kit shared by all engines:
// one seed -> choice tape -> replay / shrink; event log and trace hash; fault
// and probe counters; batch runner; evidence writer; known findings.
//
// Nothing in this package reads a clock or draws from the tape while logging.
package simkit

import (
	"fmt"
)

// SplitMix64 is the only PRNG used by the simulator.
type SplitMix64 struct{ s uint64 }

// NewSplitMix64 returns a generator seeded with s.
func NewSplitMix64(s uint64) *SplitMix64 { return &SplitMix64{s: s} }

// Next returns the next 64 random bits.
func (r *SplitMix64) Next() uint64 {
	r.s += 0x9e3779b97f4a7c15
	z := r.s
	z = (z ^ (z >> 30)) * 0xbf58476d1ce4e5b9
	z = (z ^ (z >> 27)) * 0x94d049bb133111eb
	return z ^ (z >> 31)
}

// Mix derives the seed of run i of a named engine from the batch seed.
func Mix(seed uint64, name string, i uint64) uint64 {
	h := seed ^ 0x51ed270b7f4a7c15
	for _, c := range []byte(name) {
		h = (h ^ uint64(c)) * 0x100000001b3
	}
	m := NewSplitMix64(h ^ (i * 0x9e3779b97f4a7c15))
	m.Next()
	return m.Next()
}

// Entry is one recorded decision.
type Entry struct {
	Label string `json:"l"`
	N     int    `json:"n"`
	V     int    `json:"v"`
}

// Tape is the single source of nondeterminism of a run. In generate mode values
// come from the PRNG; in replay mode from the recorded list (missing entries read
// as 0, out-of-range entries are reduced modulo n) so that any edited tape is
// still a valid scenario.
type Tape struct {
	rng        *SplitMix64
	replay     []uint64
	pos        int
	replayMode bool
	Rec        []Entry
}

// NewTape returns a generating tape.
func NewTape(seed uint64) *Tape { return &Tape{rng: NewSplitMix64(seed)} }

// ReplayTape returns a tape that replays vals.
func ReplayTape(vals []uint64) *Tape { return &Tape{replay: vals, replayMode: true} }

// Values returns the raw values drawn so far (the replayable tape).
func (t *Tape) Values() []uint64 {
	out := make([]uint64, len(t.Rec))
	for i, e := range t.Rec {
		out[i] = uint64(e.V)
	}
	return out
}

// Draw returns a value in [0,n) and records it.
func (t *Tape) Draw(label string, n int) int {
	if n <= 0 {
		panic(fmt.Sprintf("simkit: Draw(%q, %d)", label, n))
	}
	var v int
	if t.replayMode {
		if t.pos < len(t.replay) {
			v = int(t.replay[t.pos] % uint64(n))
		}
		t.pos++
	} else {
		v = int(t.rng.Next() % uint64(n))
	}
	t.Rec = append(t.Rec, Entry{label, n, v})
	return v
}

// Range returns a value in [lo,hi].
func (t *Tape) Range(label string, lo, hi int) int {
	if hi < lo {
		hi = lo
	}
	return lo + t.Draw(label, hi-lo+1)
}

// Chance is true with probability num/den. Value 0 (the shrink target) is "false".
func (t *Tape) Chance(label string, num, den int) bool {
	v := t.Draw(label, den)
	return v >= den-num
}

// Weighted picks an index with the given weights; index 0 is the shrink target.
func (t *Tape) Weighted(label string, w ...int) int {
	tot := 0
	for _, x := range w {
		tot += x
	}
	v := t.Draw(label, tot)
	for i, x := range w {
		if v < x {
			return i
		}
		v -= x
	}
	return len(w) - 1
}

// Perm returns a permutation of [0,n) (identity when all draws are 0).
func (t *Tape) Perm(label string, n int) []int {
	p := make([]int, n)
	for i := range p {
		p[i] = i
	}
	for i := 0; i < n-1; i++ {
		j := i + t.Draw(label, n-i)
		p[i], p[j] = p[j], p[i]
	}
	return p
}
