package simkit

// Shrink minimises a tape while keep(vals) stays true (same violation class).
// Passes: drop the tail, delete blocks of 8/4/2/1 entries, zero an entry, halve and
// decrement an entry. budget bounds the number of re-executions.
func Shrink(vals []uint64, budget int, keep func([]uint64) bool) ([]uint64, int) {
	cur := append([]uint64(nil), vals...)
	used := 0
	try := func(c []uint64) bool {
		if used >= budget {
			return false
		}
		used++
		if keep(c) {
			cur = append([]uint64(nil), c...)
			return true
		}
		return false
	}
	// Trailing zeros are equivalent to a shorter tape.
	trim := func() {
		for len(cur) > 0 && cur[len(cur)-1] == 0 {
			cur = cur[:len(cur)-1]
		}
	}
	trim()
	for improved := true; improved && used < budget; {
		improved = false
		// Drop the tail by halves.
		for n := len(cur) / 2; n >= 1 && used < budget; n /= 2 {
			for len(cur) >= n && try(cur[:len(cur)-n]) {
				improved = true
				trim()
			}
		}
		// Zero blocks (keeps the alignment of everything that follows, unlike deletion).
		for _, bs := range []int{32, 16, 8, 4, 2} {
			for i := 0; i+bs <= len(cur) && used < budget; i += bs {
				allZero := true
				for _, v := range cur[i : i+bs] {
					if v != 0 {
						allZero = false
					}
				}
				if allZero {
					continue
				}
				c := append([]uint64(nil), cur...)
				for k := i; k < i+bs; k++ {
					c[k] = 0
				}
				if try(c) {
					improved = true
				}
			}
		}
		trim()
		// Delete blocks.
		for _, bs := range []int{32, 16, 8, 4, 2, 1} {
			for i := 0; i+bs <= len(cur) && used < budget; {
				c := append(append([]uint64(nil), cur[:i]...), cur[i+bs:]...)
				if try(c) {
					improved = true
					trim()
				} else {
					i++
				}
			}
		}
		// Simplify values.
		for i := 0; i < len(cur) && used < budget; i++ {
			if cur[i] == 0 {
				continue
			}
			c := append([]uint64(nil), cur...)
			c[i] = 0
			if try(c) {
				improved = true
				continue
			}
			for cur[i] > 1 && used < budget {
				c = append([]uint64(nil), cur...)
				c[i] = cur[i] / 2
				if !try(c) {
					break
				}
				improved = true
			}
			for cur[i] > 0 && used < budget {
				c = append([]uint64(nil), cur...)
				c[i] = cur[i] - 1
				if !try(c) {
					break
				}
				improved = true
			}
		}
		trim()
	}
	return cur, used
}
