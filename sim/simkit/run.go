package simkit

import (
	"crypto/sha256"
	"encoding/hex"
	"fmt"
	"os"
	"sort"
	"strings"
	"sync/atomic"
)

// Violation is an oracle failure.
type Violation struct {
	Property  string `json:"property"`
	Invariant string `json:"invariant"` // violation class: shrinking must preserve it
	Signature string `json:"signature"` // class + minimal discriminating facts; matched against known findings
	Detail    string `json:"detail"`
}

// Env is what the outside world gives to a run (never a source of randomness).
type Env struct {
	AtlasBin string            // path of the CLI built from /repo with -tags verif (process-level engines)
	Scratch  string            // private scratch root for this run (created by the runner, removed afterwards)
	Tier     string            // quick | thorough
	RunIndex uint64            // index inside the batch (stratification only)
	Params   map[string]string // engine parameters
}

// Run is the context of one simulated execution.
type Run struct {
	T   *Tape
	Env *Env

	events     []string
	violation  *Violation
	fired      map[string]int
	configured map[string]int
	probes     map[string]int
	steps      int
	nontrivial bool
	tags       map[string]bool
	sample     []string
}

// NewRun builds a run context.
func NewRun(t *Tape, env *Env) *Run {
	return &Run{T: t, Env: env, fired: map[string]int{}, configured: map[string]int{}, probes: map[string]int{}, tags: map[string]bool{}}
}

// Logf appends one normalised line to the event log. It never draws and never reads a clock.
func (r *Run) Logf(format string, a ...any) {
	r.events = append(r.events, fmt.Sprintf(format, a...))
}

// Step counts one logical step (operation / invocation).
func (r *Run) Step() { r.steps++ }

// Configured records that a fault of this kind was planned.
func (r *Run) Configured(kind string) { r.configured[kind]++ }

// Fired records that a fault of this kind really took effect.
func (r *Run) Fired(kind string) { r.fired[kind]++; r.nontrivial = true }

// Probe records that a rare condition was reached.
func (r *Run) Probe(name string) { r.probes[name]++ }

// Nontrivial marks the run as having executed a state-changing step.
func (r *Run) Nontrivial() { r.nontrivial = true }

// Tag labels the run (e.g. "fault-free").
func (r *Run) Tag(s string) { r.tags[s] = true }

// Sample adds a line to the human-readable scenario description.
func (r *Run) Sample(format string, a ...any) {
	r.sample = append(r.sample, fmt.Sprintf(format, a...))
}

// Fail records the first violation of the run.
func (r *Run) Fail(property, invariant, signature, format string, a ...any) {
	if r.violation != nil {
		return
	}
	if signature == "" {
		signature = invariant
	}
	r.violation = &Violation{Property: property, Invariant: invariant, Signature: property + "/" + signature, Detail: fmt.Sprintf(format, a...)}
	r.Logf("VIOLATION %s %s", invariant, signature)
}

// Reclass files the recorded violation under another signature (a scenario built for one recorded
// finding reports whatever goes wrong in it as that finding); the original one is kept in the detail.
func (r *Run) Reclass(signature string) {
	if r.violation == nil {
		return
	}
	v := r.violation
	v.Detail = "[" + v.Signature + "] " + v.Detail
	v.Signature = v.Property + "/" + signature
	r.Logf("RECLASS %s", signature)
}

// Signature returns the signature of the recorded violation ("" if none).
func (r *Run) Signature() string {
	if r.violation == nil {
		return ""
	}
	return r.violation.Signature
}

// Failed reports whether a violation has been recorded.
func (r *Run) Failed() bool { return r.violation != nil }

// Result is what a finished run leaves behind.
type Result struct {
	TraceHash  string         `json:"trace_hash"`
	Events     []string       `json:"events,omitempty"`
	Violation  *Violation     `json:"violation,omitempty"`
	Fired      map[string]int `json:"fired,omitempty"`
	Configured map[string]int `json:"configured,omitempty"`
	Probes     map[string]int `json:"probes,omitempty"`
	Steps      int            `json:"steps"`
	Nontrivial bool           `json:"nontrivial"`
	Tags       []string       `json:"tags,omitempty"`
	Sample     []string       `json:"sample,omitempty"`
	Tape       []Entry        `json:"tape,omitempty"`
}

// Finish computes the result.
func (r *Run) Finish() *Result {
	h := sha256.New()
	for _, e := range r.events {
		h.Write([]byte(e))
		h.Write([]byte{'\n'})
	}
	tags := make([]string, 0, len(r.tags))
	for t := range r.tags {
		tags = append(tags, t)
	}
	sort.Strings(tags)
	return &Result{
		TraceHash:  hex.EncodeToString(h.Sum(nil))[:32],
		Events:     r.events,
		Violation:  r.violation,
		Fired:      r.fired,
		Configured: r.configured,
		Probes:     r.probes,
		Steps:      r.steps,
		Nontrivial: r.nontrivial,
		Tags:       tags,
		Sample:     r.sample,
		Tape:       r.T.Rec,
	}
}

// Scenario is one engine entry point: a pure function of the tape, the code under
// test and Env.
type Scenario func(r *Run)

// Exec runs fn on a tape, converting a panic of the harness or of the code under
// test that the scenario did not handle itself into a violation of class "panic".
func Exec(property string, fn Scenario, t *Tape, env *Env) (res *Result) {
	r := NewRun(t, env)
	func() {
		defer func() {
			if p := recover(); p != nil {
				if _, ok := p.(harnessError); ok {
					if os.Getenv("VERIF_DEBUG_HARNESS") != "" {
						fmt.Fprintf(os.Stderr, "harness trouble on tape %v (run index %d)\n", t.Values(), env.RunIndex)
					}
					panic(p)
				}
				msg := fmt.Sprint(p)
				r.Fail(property, "panic", "panic/"+noDigits(firstLine(msg)), "unhandled panic: %s", msg)
			}
		}()
		fn(r)
	}()
	return r.Finish()
}

type harnessError struct{ msg string }

// HarnessRetries counts process-level runs that were re-executed from their seed after trouble in
// the environment (a watchdog timeout on an overloaded machine, a stray signal). A run is a pure
// function of its seed, so re-executing it is the same run; trouble that repeats still exits 2.
var HarnessRetries atomic.Int64

// ExecRetry is Exec for process-level parts: environment trouble is retried twice in a fresh
// scratch directory before it aborts the check.
func ExecRetry(property string, fn Scenario, seed uint64, env *Env, fresh func() string) (res *Result) {
	for attempt := 0; ; attempt++ {
		e := *env
		e.Scratch = fresh()
		var herr *harnessError
		func() {
			defer func() {
				if p := recover(); p != nil {
					if h, ok := p.(harnessError); ok && attempt < 2 {
						herr = &h
						return
					}
					panic(p)
				}
			}()
			res = Exec(property, fn, NewTape(seed), &e)
		}()
		os.RemoveAll(e.Scratch)
		if herr == nil {
			return res
		}
		HarnessRetries.Add(1)
		fmt.Fprintf(os.Stderr, "harness-retry run=%d attempt=%d: %s\n", env.RunIndex, attempt+1, firstN(herr.msg, 300))
	}
}

func firstN(s string, n int) string {
	if len(s) > n {
		return s[:n]
	}
	return s
}

// Harnessf aborts the whole check with exit status 2: trouble in the machinery, never a violation.
func Harnessf(format string, a ...any) {
	panic(harnessError{fmt.Sprintf(format, a...)})
}

func firstLine(s string) string {
	if i := strings.IndexByte(s, '\n'); i >= 0 {
		s = s[:i]
	}
	if len(s) > 80 {
		s = s[:80]
	}
	return s
}

// noDigits replaces every run of digits by N so that signatures do not depend on indexes and lengths.
func noDigits(s string) string {
	var b strings.Builder
	prev := false
	for _, r := range s {
		if r >= '0' && r <= '9' {
			if !prev {
				b.WriteByte('N')
			}
			prev = true
			continue
		}
		prev = false
		b.WriteRune(r)
	}
	return b.String()
}
