package simkit

import (
	"bufio"
	"bytes"
	"encoding/json"
	"fmt"
	"os"
	"os/exec"
	"path/filepath"
	"sort"
	"strings"
	"time"
)

// Options of one check invocation.
type Options struct {
	Root         string // /verif
	OutRoot      string // where evidence/ and replays/ are written (default Root)
	Tier         string
	Seed         uint64
	AtlasBin     string
	RunsOverride int
	Self         string // path of this binary (fresh-process replay)
}

func (o Options) out() string {
	if o.OutRoot != "" {
		return o.OutRoot
	}
	return o.Root
}

// ReplayFile is the on-disk form of a minimised failing scenario.
type ReplayFile struct {
	Property    string     `json:"property"`
	Part        string     `json:"part"`
	BatchSeed   uint64     `json:"batch_seed"`
	Run         uint64     `json:"run"`
	RunSeed     uint64     `json:"run_seed"`
	Tier        string     `json:"tier"`
	Violation   *Violation `json:"violation"`
	TraceHash   string     `json:"trace_hash"`
	Tape        []uint64   `json:"tape"`
	Decisions   []Entry    `json:"decisions"`
	Scenario    []string   `json:"scenario"`
	Events      []string   `json:"events"`
	ShrinkRuns  int        `json:"shrink_reexecutions"`
	OrigLen     int        `json:"unshrunk_tape_len"`
	ReplayExact bool       `json:"replay_exact"`
}

// Known is one entry of the known-findings file.
type Known struct {
	Fixed     bool
	Property  string
	Signature string
	Text      string
}

// LoadKnown parses /verif/known_findings.txt. Lines:
//
//	known: property=<id> signature=<sig> <what fails>
//	fixed: property=<id> <commit> <what failed>
//
// Only "known:" entries suppress anything.
func LoadKnown(root string) ([]Known, error) {
	f, err := os.Open(filepath.Join(root, "known_findings.txt"))
	if os.IsNotExist(err) {
		return nil, nil
	}
	if err != nil {
		return nil, err
	}
	defer f.Close()
	var out []Known
	sc := bufio.NewScanner(f)
	for sc.Scan() {
		line := strings.TrimSpace(sc.Text())
		if line == "" || strings.HasPrefix(line, "#") {
			continue
		}
		k := Known{Text: line}
		switch {
		case strings.HasPrefix(line, "known:"):
		case strings.HasPrefix(line, "fixed:"):
			k.Fixed = true
		default:
			return nil, fmt.Errorf("known_findings.txt: bad line %q", line)
		}
		for _, tok := range strings.Fields(line) {
			if v, ok := strings.CutPrefix(tok, "property="); ok {
				k.Property = v
			}
			if v, ok := strings.CutPrefix(tok, "signature="); ok {
				k.Signature = v
			}
		}
		out = append(out, k)
	}
	return out, sc.Err()
}

func knownFor(ks []Known, v *Violation) *Known {
	for i := range ks {
		if !ks[i].Fixed && ks[i].Property == v.Property && ks[i].Signature == v.Signature {
			return &ks[i]
		}
	}
	return nil
}

// ExitCode of a check.
const (
	ExitOK        = 0
	ExitViolation = 1
	ExitHarness   = 2
)

// RunCheck runs all parts of a check, shrinks and verifies violations, writes evidence.
func RunCheck(c *Check, o Options) int {
	start := time.Now()
	known, err := LoadKnown(o.Root)
	if err != nil {
		fmt.Fprintf(os.Stderr, "harness: %v\n", err)
		return ExitHarness
	}
	scratch, err := ScratchRoot()
	if err != nil {
		fmt.Fprintf(os.Stderr, "harness: %v\n", err)
		return ExitHarness
	}
	defer os.RemoveAll(scratch)
	fmt.Printf("check property=%s tier=%s VERIF_SEED=%d\n", c.Property, o.Tier, o.Seed)
	var (
		all         []*BatchStats
		unknown     int
		knownSeen   = map[string]bool{}
		replayExact = true
		exit        = ExitOK
	)
	for _, p := range c.Parts {
		n := p.Runs[o.Tier]
		// --runs resizes the parts of the tier; a part the tier does not run stays off.
		if o.RunsOverride > 0 && n > 0 {
			n = o.RunsOverride
		}
		if n == 0 {
			continue
		}
		if p.NeedsCLI && o.AtlasBin == "" {
			fmt.Fprintf(os.Stderr, "harness: part %s needs the CLI binary (ATLAS_BIN)\n", p.Name)
			return ExitHarness
		}
		env := Env{AtlasBin: o.AtlasBin, Scratch: scratch}
		st, err := RunBatch(c.Property, p, o.Tier, o.Seed, n, env)
		if err != nil {
			fmt.Fprintf(os.Stderr, "%v\n", err)
			return ExitHarness
		}
		all = append(all, st)
		fmt.Printf("part=%s runs=%d/%d distinct_nontrivial=%d violating_runs=%d wall=%.1fs\n", p.Name, st.Runs, st.Planned, st.Distinct, st.Violations, st.WallS)
		founds := st.Founds()
		reported := 0
		for _, f := range founds {
			if k := knownFor(known, f.Res.Violation); k != nil {
				if !knownSeen[k.Text] {
					knownSeen[k.Text] = true
					fmt.Printf("KNOWN-FINDING: %s\n", strings.TrimSpace(strings.TrimPrefix(k.Text, "known:")))
				}
				continue
			}
			unknown++
			if reported >= 6 {
				continue
			}
			reported++
			path, exact := minimiseAndWrite(c, p, f, o, env, known)
			if !exact {
				replayExact = false
			}
			fmt.Printf("VIOLATION property=%s replay=%s\n", c.Property, path)
			fmt.Printf("  invariant=%s signature=%s\n  %s\n", f.Res.Violation.Invariant, f.Res.Violation.Signature, f.Res.Violation.Detail)
			exit = ExitViolation
		}
	}
	// Probe / fault reach.
	agg := aggregate(all)
	var missing []string
	if o.RunsOverride == 0 {
		for _, pr := range c.RequiredProbes {
			if agg.Probes[pr] == 0 {
				missing = append(missing, "probe:"+pr)
			}
		}
		for _, fk := range c.RequiredFaults {
			if agg.Fired[fk] == 0 {
				missing = append(missing, "fault:"+fk)
			}
		}
	}
	wall := time.Since(start).Seconds()
	if err := writeEvidence(c, o, all, agg, unknown, replayExact, missing, wall); err != nil {
		fmt.Fprintf(os.Stderr, "harness: evidence: %v\n", err)
		return ExitHarness
	}
	if exit == ExitOK && len(missing) > 0 {
		fmt.Fprintf(os.Stderr, "harness: exploration did not reach what it claims: %s\n", strings.Join(missing, ", "))
		return ExitHarness
	}
	if exit == ExitOK {
		fmt.Printf("OK property=%s runs=%d distinct_nontrivial=%d\n", c.Property, agg.Runs, agg.Distinct)
	}
	return exit
}

func aggregate(all []*BatchStats) *BatchStats {
	a := &BatchStats{Fired: map[string]int{}, Configured: map[string]int{}, Probes: map[string]int{}, Tags: map[string]int{}}
	for _, s := range all {
		a.Runs += s.Runs
		a.Planned += s.Planned
		a.Steps += s.Steps
		a.Nontrivial += s.Nontrivial
		a.Distinct += s.Distinct
		a.DistinctAll += s.DistinctAll
		a.Violations += s.Violations
		a.Truncated = a.Truncated || s.Truncated
		a.WallS += s.WallS
		for k, v := range s.Fired {
			a.Fired[k] += v
		}
		for k, v := range s.Configured {
			a.Configured[k] += v
		}
		for k, v := range s.Probes {
			a.Probes[k] += v
		}
		for k, v := range s.Tags {
			a.Tags[k] += v
		}
		a.Samples = append(a.Samples, s.Samples...)
	}
	return a
}

// runTape executes one tape, in process.
func runTape(c *Check, p Part, vals []uint64, env Env, tier string, runIndex uint64) *Result {
	e := env
	e.Tier = tier
	e.RunIndex = runIndex
	e.Params = p.Params
	if p.ProcessLevel {
		d, err := os.MkdirTemp(env.Scratch, "replay-")
		if err != nil {
			Harnessf("scratch: %v", err)
		}
		e.Scratch = d
		defer os.RemoveAll(d)
	}
	return Exec(c.Property, p.Fn, ReplayTape(vals), &e)
}

func minimiseAndWrite(c *Check, p Part, f *Found, o Options, env Env, known []Known) (string, bool) {
	orig := f.Res.Violation
	vals := make([]uint64, len(f.Res.Tape))
	for i, e := range f.Res.Tape {
		vals[i] = uint64(e.V)
	}
	budget := 5000
	if p.ProcessLevel {
		budget = 300
	}
	keep := func(cand []uint64) bool {
		r := runTape(c, p, cand, env, o.Tier, f.Run)
		if r.Violation == nil || r.Violation.Invariant != orig.Invariant {
			return false
		}
		return knownFor(known, r.Violation) == nil
	}
	min, used := vals, 0
	// The recorded tape must reproduce in-process before it is worth shrinking.
	if keep(vals) {
		min, used = Shrink(vals, budget, keep)
	}
	res := runTape(c, p, min, env, o.Tier, f.Run)
	if res.Violation == nil {
		res = f.Res
		min = vals
	}
	rf := &ReplayFile{
		Property: c.Property, Part: p.Name, BatchSeed: o.Seed, Run: f.Run, RunSeed: f.Seed, Tier: o.Tier,
		Violation: res.Violation, TraceHash: res.TraceHash, Tape: min, Decisions: res.Tape, Scenario: res.Sample,
		Events: res.Events, ShrinkRuns: used, OrigLen: len(vals),
	}
	dir := filepath.Join(o.out(), "replays")
	os.MkdirAll(dir, 0o755)
	path := filepath.Join(dir, fmt.Sprintf("%s-%s-%d-%d.json", c.Property, p.Name, o.Seed, f.Run))
	write := func() {
		b, _ := json.MarshalIndent(rf, "", " ")
		os.WriteFile(path, append(b, '\n'), 0o644)
	}
	write()
	// Fresh-process verification.
	exact := false
	if o.Self != "" {
		cmd := exec.Command(o.Self, "replay-child", path)
		cmd.Env = append(os.Environ(), "ATLAS_BIN="+o.AtlasBin, "VERIF_ROOT="+o.Root)
		var out bytes.Buffer
		cmd.Stdout = &out
		cmd.Stderr = os.Stderr
		if err := cmd.Run(); err == nil {
			var child Result
			if json.Unmarshal(out.Bytes(), &child) == nil && child.Violation != nil &&
				child.Violation.Invariant == res.Violation.Invariant && child.TraceHash == res.TraceHash {
				exact = true
			}
		}
	}
	rf.ReplayExact = exact
	write()
	return path, exact
}

// Replay re-executes a replay file; used by `check <id> --replay` and by the fresh-process verification.
func Replay(c *Check, path string, o Options, child bool) int {
	b, err := os.ReadFile(path)
	if err != nil {
		fmt.Fprintf(os.Stderr, "harness: %v\n", err)
		return ExitHarness
	}
	var rf ReplayFile
	if err := json.Unmarshal(b, &rf); err != nil {
		fmt.Fprintf(os.Stderr, "harness: %v\n", err)
		return ExitHarness
	}
	var part *Part
	for i := range c.Parts {
		if c.Parts[i].Name == rf.Part {
			part = &c.Parts[i]
		}
	}
	if part == nil {
		fmt.Fprintf(os.Stderr, "harness: unknown part %q\n", rf.Part)
		return ExitHarness
	}
	scratch, err := ScratchRoot()
	if err != nil {
		fmt.Fprintf(os.Stderr, "harness: %v\n", err)
		return ExitHarness
	}
	defer os.RemoveAll(scratch)
	if part.NeedsCLI && o.AtlasBin == "" {
		fmt.Fprintf(os.Stderr, "harness: part %s needs the CLI binary (ATLAS_BIN)\n", part.Name)
		return ExitHarness
	}
	env := Env{AtlasBin: o.AtlasBin, Scratch: scratch}
	tier := rf.Tier
	if tier == "" {
		tier = "quick"
	}
	res := runTape(c, *part, rf.Tape, env, tier, rf.Run)
	if child {
		res.Events = nil
		out, _ := json.Marshal(res)
		os.Stdout.Write(out)
		return ExitOK
	}
	fmt.Printf("replay property=%s part=%s tape_len=%d\n", c.Property, rf.Part, len(rf.Tape))
	for _, s := range res.Sample {
		fmt.Println("  " + s)
	}
	if res.Violation == nil {
		fmt.Printf("replay: no violation (trace %s, recorded %s)\n", res.TraceHash, rf.TraceHash)
		return ExitOK
	}
	fmt.Printf("  invariant=%s signature=%s\n  %s\n", res.Violation.Invariant, res.Violation.Signature, res.Violation.Detail)
	fmt.Printf("  trace_hash=%s recorded=%s same=%v\n", res.TraceHash, rf.TraceHash, res.TraceHash == rf.TraceHash)
	known, _ := LoadKnown(o.Root)
	if k := knownFor(known, res.Violation); k != nil {
		fmt.Printf("KNOWN-FINDING: %s\n", strings.TrimSpace(strings.TrimPrefix(k.Text, "known:")))
		return ExitOK
	}
	fmt.Printf("VIOLATION property=%s replay=%s\n", c.Property, path)
	return ExitViolation
}

func writeEvidence(c *Check, o Options, parts []*BatchStats, agg *BatchStats, violations int, replayExact bool, missing []string, wall float64) error {
	samples := agg.Samples
	if len(samples) == 0 {
		samples = []any{"no run executed"}
	}
	perHour := 0.0
	if wall > 0 {
		perHour = float64(agg.Runs) / wall * 3600
	}
	cov := map[string]any{
		"evaluations":           agg.Runs,
		"distinct_nontrivial":   agg.Distinct,
		"rule":                  c.Rule,
		"samples":               samples,
		"exhaustive":            false,
		"seeds":                 map[string]any{"VERIF_SEED": o.Seed, "derivation": "run i of part P uses SplitMix64 seed Mix(VERIF_SEED, P, i); every decision of a run is drawn from that one tape"},
		"runs_per_hour":         int(perHour),
		"simulated_time":        map[string]any{"unit": c.SimTimeUnit, "logical_steps": agg.Steps},
		"faults_fired":          sortedCounts(agg.Fired),
		"faults_configured":     sortedCounts(agg.Configured),
		"probes":                sortedCounts(agg.Probes),
		"run_tags":              sortedCounts(agg.Tags),
		"distinct_traces_all":   agg.DistinctAll,
		"nontrivial_runs":       agg.Nontrivial,
		"parts":                 parts,
		"truncated_by_watchdog": agg.Truncated,
		"components_real":       c.Real,
		"components_stub":       c.Stub,
		"replay_exact":          replayExact,
		"reach_missing":         missing,
		"harness_retries":       HarnessRetries.Load(),
	}
	if c.Extra != nil {
		for k, v := range c.Extra() {
			cov[k] = v
		}
	}
	ev := map[string]any{
		"property_id": c.Property,
		"tier":        o.Tier,
		"seed":        int64(o.Seed),
		"level":       "exploration",
		"coverage":    cov,
		"assumptions": c.Assumptions,
		"wall_s":      wall,
		"violations":  violations,
	}
	b, err := json.MarshalIndent(ev, "", " ")
	if err != nil {
		return err
	}
	dir := filepath.Join(o.out(), "evidence")
	if err := os.MkdirAll(dir, 0o755); err != nil {
		return err
	}
	return os.WriteFile(filepath.Join(dir, c.Property+".json"), append(b, '\n'), 0o644)
}

func sortedCounts(m map[string]int) map[string]int {
	// encoding/json sorts map keys; copy so that nil becomes {}.
	out := map[string]int{}
	keys := make([]string, 0, len(m))
	for k := range m {
		keys = append(keys, k)
	}
	sort.Strings(keys)
	for _, k := range keys {
		out[k] = m[k]
	}
	return out
}
