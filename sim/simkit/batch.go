package simkit

import (
	"encoding/json"
	"fmt"
	"os"
	"os/exec"
	"path/filepath"
	"runtime"
	"sort"
	"sync"
	"sync/atomic"
	"time"
)

// Part is one engine configuration serving a property.
type Part struct {
	Name         string         // e.g. "execsim" — also the engine name mixed into run seeds
	Fn           Scenario       // the scenario
	Runs         map[string]int // tier -> number of runs
	ProcessLevel bool           // drives child processes (smaller shrink budget, needs scratch + CLI)
	NeedsCLI     bool
	Workers      int           // 0 = all cores
	Shards       bool          // run the batch in one-worker child processes (process-global seams)
	Budget       time.Duration // wall-clock watchdog per tier run (0 = default)
	Params       map[string]string
}

// Check is everything registered for one property.
type Check struct {
	Property       string
	Parts          []Part
	Rule           string   // how cases are generated and what makes one distinct / non-trivial
	RequiredProbes []string // a probe stuck at zero => exit 2
	RequiredFaults []string // a fault kind that never fired => exit 2
	Real           []string // components that run real code
	Stub           []string // components that are harness stubs
	Assumptions    []string
	SimTimeUnit    string
	Extra          func() map[string]any // additional measured evidence
}

// Found is a violation found by a batch.
type Found struct {
	Part  string  `json:"part"`
	Run   uint64  `json:"run"`
	Seed  uint64  `json:"seed"`
	Res   *Result `json:"res"`
	Known string  `json:"-"` // non-empty: text of the matching known finding
}

// BatchStats aggregates a part's runs.
type BatchStats struct {
	Part        string         `json:"part"`
	Runs        int            `json:"runs"`
	Planned     int            `json:"planned"`
	Truncated   bool           `json:"truncated"`
	Steps       int            `json:"logical_steps"`
	Nontrivial  int            `json:"nontrivial_runs"`
	Distinct    int            `json:"distinct_nontrivial_traces"`
	DistinctAll int            `json:"distinct_traces"`
	Fired       map[string]int `json:"faults_fired"`
	Configured  map[string]int `json:"faults_configured"`
	Probes      map[string]int `json:"probes"`
	Tags        map[string]int `json:"run_tags"`
	WallS       float64        `json:"wall_s"`
	Violations  int            `json:"violating_runs"`
	Samples     []any          `json:"-"`
	found       map[string]*Found
	hashes      map[uint64]struct{}
	nontriv     map[uint64]struct{}
}

// RunBatch executes n runs of a part.
func RunBatch(property string, p Part, tier string, seed uint64, n int, env Env) (*BatchStats, error) {
	if p.Shards && os.Getenv("VERIF_SHARD_CHILD") == "" {
		return runSharded(property, p, tier, seed, n)
	}
	return runRange(property, p, tier, seed, 0, n, env)
}

// shardResult is what a shard child prints.
type shardResult struct {
	Stats     *BatchStats `json:"stats"`
	Hashes    []uint64    `json:"hashes"`
	Nontriv   []uint64    `json:"nontrivial_hashes"`
	Founds    []*Found    `json:"founds"`
	SampleIdx []uint64    `json:"sample_idx"`
	Samples   []any       `json:"samples"`
}

// RunShard runs runs [from,to) sequentially in this process and prints the result as JSON.
func RunShard(c *Check, part, tier string, seed uint64, from, to int, env Env) int {
	var p *Part
	for i := range c.Parts {
		if c.Parts[i].Name == part {
			p = &c.Parts[i]
		}
	}
	if p == nil {
		return ExitHarness
	}
	pp := *p
	pp.Workers = 1
	st, err := runRange(c.Property, pp, tier, seed, from, to, env)
	if err != nil {
		fmt.Fprintln(os.Stderr, err)
		return ExitHarness
	}
	res := shardResult{Stats: st, Founds: st.Founds(), Samples: st.Samples}
	for h := range st.hashes {
		res.Hashes = append(res.Hashes, h)
	}
	for h := range st.nontriv {
		res.Nontriv = append(res.Nontriv, h)
	}
	b, _ := json.Marshal(res)
	os.Stdout.Write(b)
	return ExitOK
}

func runSharded(property string, p Part, tier string, seed uint64, n int) (*BatchStats, error) {
	workers := runtime.NumCPU()
	if w := os.Getenv("VERIF_WORKERS"); w != "" {
		fmt.Sscan(w, &workers)
	}
	if workers > n {
		workers = n
	}
	if workers < 1 {
		workers = 1
	}
	self, err := os.Executable()
	if err != nil {
		return nil, err
	}
	start := time.Now()
	// Many small shards, handed out to a fixed number of child slots: keeps all cores busy.
	chunk := (n + workers*4 - 1) / (workers * 4)
	if chunk < 1 {
		chunk = 1
	}
	type job struct{ from, to int }
	var jobs []job
	for f := 0; f < n; f += chunk {
		to := f + chunk
		if to > n {
			to = n
		}
		jobs = append(jobs, job{f, to})
	}
	results := make([]*shardResult, len(jobs))
	var (
		wg   sync.WaitGroup
		next int64 = -1
		herr atomic.Value
	)
	for w := 0; w < workers; w++ {
		wg.Add(1)
		go func() {
			defer wg.Done()
			for {
				i := int(atomic.AddInt64(&next, 1))
				if i >= len(jobs) {
					return
				}
				cmd := exec.Command(self, "shard", property, p.Name, tier, fmt.Sprint(seed), fmt.Sprint(jobs[i].from), fmt.Sprint(jobs[i].to))
				cmd.Env = append(os.Environ(), "VERIF_SHARD_CHILD=1")
				cmd.Stderr = os.Stderr
				out, err := cmd.Output()
				if err != nil {
					herr.Store(fmt.Sprintf("shard %d-%d: %v", jobs[i].from, jobs[i].to, err))
					return
				}
				var r shardResult
				if err := json.Unmarshal(out, &r); err != nil {
					herr.Store(fmt.Sprintf("shard %d-%d: bad output: %v", jobs[i].from, jobs[i].to, err))
					return
				}
				results[i] = &r
			}
		}()
	}
	wg.Wait()
	if m := herr.Load(); m != nil {
		return nil, fmt.Errorf("harness: %s", m.(string))
	}
	st := &BatchStats{Part: p.Name, Planned: n, Fired: map[string]int{}, Configured: map[string]int{}, Probes: map[string]int{}, Tags: map[string]int{},
		found: map[string]*Found{}, hashes: map[uint64]struct{}{}, nontriv: map[uint64]struct{}{}}
	for _, r := range results {
		if r == nil {
			continue
		}
		s := r.Stats
		st.Runs += s.Runs
		st.Steps += s.Steps
		st.Nontrivial += s.Nontrivial
		st.Violations += s.Violations
		st.Truncated = st.Truncated || s.Truncated
		for k, v := range s.Fired {
			st.Fired[k] += v
		}
		for k, v := range s.Configured {
			st.Configured[k] += v
		}
		for k, v := range s.Probes {
			st.Probes[k] += v
		}
		for k, v := range s.Tags {
			st.Tags[k] += v
		}
		for _, h := range r.Hashes {
			st.hashes[h] = struct{}{}
		}
		for _, h := range r.Nontriv {
			st.nontriv[h] = struct{}{}
		}
		for _, f := range r.Founds {
			sig := f.Res.Violation.Signature
			if o, ok := st.found[sig]; !ok || f.Run < o.Run {
				st.found[sig] = f
			}
		}
		if len(st.Samples) < 3 {
			st.Samples = append(st.Samples, r.Samples...)
		}
	}
	if len(st.Samples) > 3 {
		st.Samples = st.Samples[:3]
	}
	st.Distinct, st.DistinctAll = len(st.nontriv), len(st.hashes)
	st.WallS = time.Since(start).Seconds()
	return st, nil
}

func runRange(property string, p Part, tier string, seed uint64, from, n int, env Env) (*BatchStats, error) {
	workers := p.Workers
	if workers <= 0 {
		workers = runtime.NumCPU()
	}
	if w := os.Getenv("VERIF_WORKERS"); w != "" {
		fmt.Sscan(w, &workers)
	}
	if workers > n-from {
		workers = n - from
	}
	if workers < 1 {
		workers = 1
	}
	budget := p.Budget
	if budget == 0 {
		budget = 30 * time.Minute
		if tier == "thorough" {
			budget = 3 * time.Hour
		}
	}
	start := time.Now()
	deadline := start.Add(budget)
	st := &BatchStats{Part: p.Name, Planned: n - from, Fired: map[string]int{}, Configured: map[string]int{}, Probes: map[string]int{}, Tags: map[string]int{},
		found: map[string]*Found{}, hashes: map[uint64]struct{}{}, nontriv: map[uint64]struct{}{}}
	nontrivHashes := st.nontriv
	samples := map[uint64]any{}
	var (
		mu      sync.Mutex
		next    = uint64(from)
		wg      sync.WaitGroup
		herr    atomic.Value
		stopped atomic.Bool
	)
	for w := 0; w < workers; w++ {
		wg.Add(1)
		go func() {
			defer wg.Done()
			defer func() {
				if pv := recover(); pv != nil {
					if he, ok := pv.(harnessError); ok {
						herr.Store(he.msg)
						stopped.Store(true)
						return
					}
					panic(pv)
				}
			}()
			for {
				if stopped.Load() {
					return
				}
				i := atomic.AddUint64(&next, 1) - 1
				if i >= uint64(n) {
					return
				}
				if time.Now().After(deadline) {
					mu.Lock()
					st.Truncated = true
					mu.Unlock()
					return
				}
				rs := Mix(seed, p.Name, i)
				e := env
				e.RunIndex = i
				e.Tier = tier
				e.Params = p.Params
				var res *Result
				if p.ProcessLevel {
					res = ExecRetry(property, p.Fn, rs, &e, func() string {
						d, err := os.MkdirTemp(env.Scratch, fmt.Sprintf("run-%d-", i))
						if err != nil {
							Harnessf("scratch: %v", err)
						}
						return d
					})
				} else {
					res = Exec(property, p.Fn, NewTape(rs), &e)
				}
				mu.Lock()
				st.Runs++
				st.Steps += res.Steps
				hk := hashKey(res.TraceHash)
				st.hashes[hk] = struct{}{}
				if res.Nontrivial {
					st.Nontrivial++
					nontrivHashes[hk] = struct{}{}
				}
				for k, v := range res.Fired {
					st.Fired[k] += v
				}
				for k, v := range res.Configured {
					st.Configured[k] += v
				}
				for k, v := range res.Probes {
					st.Probes[k] += v
				}
				for _, t := range res.Tags {
					st.Tags[t]++
				}
				if i < uint64(from)+3 {
					samples[i] = map[string]any{"part": p.Name, "run": i, "seed": rs, "scenario": res.Sample, "trace_hash": res.TraceHash}
				}
				if res.Violation != nil {
					st.Violations++
					sig := res.Violation.Signature
					if f, ok := st.found[sig]; !ok || i < f.Run {
						st.found[sig] = &Found{Part: p.Name, Run: i, Seed: rs, Res: res}
					}
				}
				mu.Unlock()
			}
		}()
	}
	wg.Wait()
	if m := herr.Load(); m != nil {
		return nil, fmt.Errorf("harness: %s", m.(string))
	}
	st.Distinct = len(nontrivHashes)
	st.DistinctAll = len(st.hashes)
	st.WallS = time.Since(start).Seconds()
	for i := uint64(from); i < uint64(from)+3; i++ {
		if s, ok := samples[i]; ok {
			st.Samples = append(st.Samples, s)
		}
	}
	return st, nil
}

// Founds returns the violations of a batch, lowest run index first.
func (st *BatchStats) Founds() []*Found {
	out := make([]*Found, 0, len(st.found))
	for _, f := range st.found {
		out = append(out, f)
	}
	sort.Slice(out, func(i, j int) bool { return out[i].Run < out[j].Run })
	return out
}

// ScratchRoot creates the scratch root for a check (outside /repo and /verif).
func ScratchRoot() (string, error) {
	base := os.Getenv("VERIF_SCRATCH")
	if base == "" {
		base = os.TempDir()
	}
	if err := os.MkdirAll(base, 0o755); err != nil {
		return "", err
	}
	d, err := os.MkdirTemp(base, "verifsim-")
	if err != nil {
		return "", err
	}
	return filepath.Abs(d)
}

func hashKey(h string) uint64 {
	var v uint64
	for i := 0; i < 16 && i < len(h); i++ {
		c := h[i]
		switch {
		case c >= '0' && c <= '9':
			v = v<<4 | uint64(c-'0')
		default:
			v = v<<4 | uint64(c-'a'+10)
		}
	}
	return v
}
