package simkit

import (
	"fmt"
	"os"
	"path/filepath"
	"runtime"
	"sort"
	"sync"
	"sync/atomic"
	"time"
)

// Part is one engine configuration serving a property.
type Part struct {
	Name         string         // e.g. "execsim" — also the engine name mixed into run seeds
	Fn           Scenario       // the scenario
	Runs         map[string]int // tier -> number of runs
	ProcessLevel bool           // drives child processes (smaller shrink budget, needs scratch + CLI)
	NeedsCLI     bool
	Workers      int           // 0 = all cores
	Budget       time.Duration // wall-clock watchdog per tier run (0 = default)
	Params       map[string]string
}

// Check is everything registered for one property.
type Check struct {
	Property       string
	Parts          []Part
	Rule           string   // how cases are generated and what makes one distinct / non-trivial
	RequiredProbes []string // a probe stuck at zero => exit 2
	RequiredFaults []string // a fault kind that never fired => exit 2
	Real           []string // components that run real code
	Stub           []string // components that are harness stubs
	Assumptions    []string
	SimTimeUnit    string
}

// Found is a violation found by a batch.
type Found struct {
	Part  string
	Run   uint64
	Seed  uint64
	Res   *Result
	Known string // non-empty: text of the matching known finding
}

// BatchStats aggregates a part's runs.
type BatchStats struct {
	Part        string         `json:"part"`
	Runs        int            `json:"runs"`
	Planned     int            `json:"planned"`
	Truncated   bool           `json:"truncated"`
	Steps       int            `json:"logical_steps"`
	Nontrivial  int            `json:"nontrivial_runs"`
	Distinct    int            `json:"distinct_nontrivial_traces"`
	DistinctAll int            `json:"distinct_traces"`
	Fired       map[string]int `json:"faults_fired"`
	Configured  map[string]int `json:"faults_configured"`
	Probes      map[string]int `json:"probes"`
	Tags        map[string]int `json:"run_tags"`
	WallS       float64        `json:"wall_s"`
	Violations  int            `json:"violating_runs"`
	Samples     []any          `json:"-"`
	found       map[string]*Found
	hashes      map[uint64]struct{}
}

// RunBatch executes n runs of a part.
func RunBatch(property string, p Part, tier string, seed uint64, n int, env Env) (*BatchStats, error) {
	workers := p.Workers
	if workers <= 0 {
		workers = runtime.NumCPU()
	}
	if w := os.Getenv("VERIF_WORKERS"); w != "" {
		fmt.Sscan(w, &workers)
	}
	if workers > n {
		workers = n
	}
	if workers < 1 {
		workers = 1
	}
	budget := p.Budget
	if budget == 0 {
		budget = 30 * time.Minute
		if tier == "thorough" {
			budget = 3 * time.Hour
		}
	}
	start := time.Now()
	deadline := start.Add(budget)
	st := &BatchStats{Part: p.Name, Planned: n, Fired: map[string]int{}, Configured: map[string]int{}, Probes: map[string]int{}, Tags: map[string]int{},
		found: map[string]*Found{}, hashes: map[uint64]struct{}{}}
	nontrivHashes := map[uint64]struct{}{}
	samples := map[uint64]any{}
	var (
		mu      sync.Mutex
		next    uint64
		wg      sync.WaitGroup
		herr    atomic.Value
		stopped atomic.Bool
	)
	for w := 0; w < workers; w++ {
		wg.Add(1)
		go func() {
			defer wg.Done()
			defer func() {
				if pv := recover(); pv != nil {
					if he, ok := pv.(harnessError); ok {
						herr.Store(he.msg)
						stopped.Store(true)
						return
					}
					panic(pv)
				}
			}()
			for {
				if stopped.Load() {
					return
				}
				i := atomic.AddUint64(&next, 1) - 1
				if i >= uint64(n) {
					return
				}
				if time.Now().After(deadline) {
					mu.Lock()
					st.Truncated = true
					mu.Unlock()
					return
				}
				rs := Mix(seed, p.Name, i)
				e := env
				e.RunIndex = i
				e.Tier = tier
				e.Params = p.Params
				if p.ProcessLevel {
					d, err := os.MkdirTemp(env.Scratch, fmt.Sprintf("run-%d-", i))
					if err != nil {
						Harnessf("scratch: %v", err)
					}
					e.Scratch = d
				}
				res := Exec(property, p.Fn, NewTape(rs), &e)
				if p.ProcessLevel {
					os.RemoveAll(e.Scratch)
				}
				mu.Lock()
				st.Runs++
				st.Steps += res.Steps
				hk := hashKey(res.TraceHash)
				st.hashes[hk] = struct{}{}
				if res.Nontrivial {
					st.Nontrivial++
					nontrivHashes[hk] = struct{}{}
				}
				for k, v := range res.Fired {
					st.Fired[k] += v
				}
				for k, v := range res.Configured {
					st.Configured[k] += v
				}
				for k, v := range res.Probes {
					st.Probes[k] += v
				}
				for _, t := range res.Tags {
					st.Tags[t]++
				}
				if i < 3 {
					samples[i] = map[string]any{"part": p.Name, "run": i, "seed": rs, "scenario": res.Sample, "trace_hash": res.TraceHash}
				}
				if res.Violation != nil {
					st.Violations++
					sig := res.Violation.Signature
					if f, ok := st.found[sig]; !ok || i < f.Run {
						st.found[sig] = &Found{Part: p.Name, Run: i, Seed: rs, Res: res}
					}
				}
				mu.Unlock()
			}
		}()
	}
	wg.Wait()
	if m := herr.Load(); m != nil {
		return nil, fmt.Errorf("harness: %s", m.(string))
	}
	st.Distinct = len(nontrivHashes)
	st.DistinctAll = len(st.hashes)
	st.WallS = time.Since(start).Seconds()
	for i := uint64(0); i < 3; i++ {
		if s, ok := samples[i]; ok {
			st.Samples = append(st.Samples, s)
		}
	}
	return st, nil
}

// Founds returns the violations of a batch, lowest run index first.
func (st *BatchStats) Founds() []*Found {
	out := make([]*Found, 0, len(st.found))
	for _, f := range st.found {
		out = append(out, f)
	}
	sort.Slice(out, func(i, j int) bool { return out[i].Run < out[j].Run })
	return out
}

// ScratchRoot creates the scratch root for a check (outside /repo and /verif).
func ScratchRoot() (string, error) {
	base := os.Getenv("VERIF_SCRATCH")
	if base == "" {
		base = os.TempDir()
	}
	if err := os.MkdirAll(base, 0o755); err != nil {
		return "", err
	}
	d, err := os.MkdirTemp(base, "verifsim-")
	if err != nil {
		return "", err
	}
	return filepath.Abs(d)
}

func hashKey(h string) uint64 {
	var v uint64
	for i := 0; i < 16 && i < len(h); i++ {
		c := h[i]
		switch {
		case c >= '0' && c <= '9':
			v = v<<4 | uint64(c-'0')
		default:
			v = v<<4 | uint64(c-'a'+10)
		}
	}
	return v
}
