package simkit

import (
	"fmt"
	"os"
	"runtime"
	"sync"
	"sync/atomic"
)

// Hashes prints "<run> <trace hash> <violation signature>" for n runs of a part —
// the determinism self-test diffs this output across processes, GOMAXPROCS values
// and worker counts.
func Hashes(c *Check, part string, o Options, n int) int {
	if c == nil {
		return ExitHarness
	}
	var p *Part
	for i := range c.Parts {
		if c.Parts[i].Name == part {
			p = &c.Parts[i]
		}
	}
	if p == nil {
		fmt.Fprintf(os.Stderr, "harness: unknown part %q\n", part)
		return ExitHarness
	}
	scratch, err := ScratchRoot()
	if err != nil {
		return ExitHarness
	}
	defer os.RemoveAll(scratch)
	workers := runtime.NumCPU()
	if w := os.Getenv("VERIF_WORKERS"); w != "" {
		fmt.Sscan(w, &workers)
	}
	if p.Shards {
		workers = 1 // process-global seams: one run at a time
	}
	out := make([]string, n)
	var next uint64
	var wg sync.WaitGroup
	for w := 0; w < workers; w++ {
		wg.Add(1)
		go func() {
			defer wg.Done()
			for {
				i := atomic.AddUint64(&next, 1) - 1
				if i >= uint64(n) {
					return
				}
				e := Env{AtlasBin: o.AtlasBin, Scratch: scratch, Tier: o.Tier, RunIndex: i, Params: p.Params}
				if p.ProcessLevel {
					d, err := os.MkdirTemp(scratch, "run-")
					if err != nil {
						Harnessf("scratch: %v", err)
					}
					e.Scratch = d
				}
				res := Exec(c.Property, p.Fn, NewTape(Mix(o.Seed, p.Name, i)), &e)
				if p.ProcessLevel {
					os.RemoveAll(e.Scratch)
				}
				sig := "-"
				if res.Violation != nil {
					sig = res.Violation.Signature
				}
				out[i] = fmt.Sprintf("%d %s %s", i, res.TraceHash, sig)
			}
		}()
	}
	wg.Wait()
	for _, l := range out {
		fmt.Println(l)
	}
	return ExitOK
}

// One executes a single run index of a part and prints its scenario, events and violation.
func One(c *Check, part string, o Options, idx uint64) int {
	var p *Part
	for i := range c.Parts {
		if c.Parts[i].Name == part {
			p = &c.Parts[i]
		}
	}
	if p == nil {
		return ExitHarness
	}
	scratch, err := ScratchRoot()
	if err != nil {
		return ExitHarness
	}
	defer os.RemoveAll(scratch)
	e := Env{AtlasBin: o.AtlasBin, Scratch: scratch, Tier: o.Tier, RunIndex: idx, Params: p.Params}
	if p.ProcessLevel {
		d, _ := os.MkdirTemp(scratch, "run-")
		e.Scratch = d
	}
	res := Exec(c.Property, p.Fn, NewTape(Mix(o.Seed, p.Name, idx)), &e)
	for _, l := range res.Sample {
		fmt.Println(l)
	}
	fmt.Println("--- events")
	for _, l := range res.Events {
		fmt.Println(l)
	}
	if res.Violation != nil {
		fmt.Printf("VIOLATION %s %s\n%s\n", res.Violation.Invariant, res.Violation.Signature, res.Violation.Detail)
		return ExitViolation
	}
	return ExitOK
}
