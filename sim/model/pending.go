// Package model holds the small executable reference models the simulation refines
// the real code against. They are written from the documented semantics
// (DESIGN.md Appendix A), not from the implementation.
package model

import "sort"

// File of a migration directory.
type File struct {
	Version    string
	Name       string
	Checkpoint bool
}

// Rev is a recorded revision.
type Rev struct {
	Version  string
	Applied  int
	Total    int
	Resolved bool // marked applied by `migrate set`
}

// Partial reports whether the revision is partially applied. A revision the operator
// resolved with `migrate set` is considered applied ("consider all migrations up to and
// including the given version to be applied").
func (r Rev) Partial() bool { return r.Applied != r.Total && !r.Resolved }

// Options of a pending computation.
type Options struct {
	Order      string // linear | linear-skip | non-linear
	Baseline   string
	AllowDirty bool
	Clean      bool // nothing but the revision table in the database
}

// Error classes.
const (
	OK               = ""
	NoPending        = "no-pending"
	NotClean         = "not-clean"
	BaselineNotFound = "baseline-not-found"
	NonLinear        = "non-linear"
	MissingFile      = "missing-migration"
)

// Decision is the documented outcome.
type Decision struct {
	Err           string
	Pending       []File // files to run, in order
	OutOfOrder    []File // for NonLinear
	WriteBaseline string // version recorded as baseline (a visible state change)
}

// Pending computes the documented decision. files must be sorted by name, revs by version.
func Pending(files []File, revs []Rev, o Options) Decision {
	files = append([]File(nil), files...)
	sort.Slice(files, func(i, j int) bool { return files[i].Name < files[j].Name })
	revs = append([]Rev(nil), revs...)
	sort.Slice(revs, func(i, j int) bool { return revs[i].Version < revs[j].Version })
	var migs []File
	for _, f := range files {
		if !f.Checkpoint {
			migs = append(migs, f)
		}
	}
	var d Decision
	if len(revs) == 0 {
		// First run.
		if !o.Clean && !o.AllowDirty && o.Baseline == "" {
			return Decision{Err: NotClean}
		}
		switch {
		case o.Baseline != "":
			i := -1
			for k, f := range migs {
				if f.Version == o.Baseline {
					i = k
				}
			}
			if i < 0 {
				return Decision{Err: BaselineNotFound}
			}
			d.WriteBaseline = o.Baseline
			d.Pending = migs[i+1:]
		default:
			c := -1
			for k, f := range files {
				if f.Checkpoint {
					c = k
				}
			}
			if c >= 0 {
				d.Pending = files[c:] // the latest checkpoint and what follows it
			} else {
				d.Pending = migs
			}
		}
		if len(d.Pending) == 0 {
			d.Err = NoPending
		}
		return d
	}
	recorded := map[string]Rev{}
	for _, r := range revs {
		recorded[r.Version] = r
	}
	last := revs[len(revs)-1]
	// A partially applied checkpoint is resumed, followed by the files after it.
	if last.Partial() {
		for k, f := range files {
			if f.Checkpoint && f.Version == last.Version {
				d.Pending = []File{f}
				for _, g := range files[k+1:] {
					if !g.Checkpoint {
						d.Pending = append(d.Pending, g)
					}
				}
				return d
			}
		}
	}
	if len(migs) == 0 {
		return Decision{Err: NoPending}
	}
	var p []File
	cut := 0 // number of migs before P
	if last.Partial() {
		i := -1
		for k, f := range migs {
			if f.Version == last.Version {
				i = k
			}
		}
		if i < 0 {
			return Decision{Err: MissingFile}
		}
		p, cut = migs[i:], i
	} else {
		i := -1
		for k, f := range migs {
			if f.Version <= last.Version {
				i = k
			}
		}
		p, cut = migs[i+1:], i+1
	}
	// Files between the first and the last revision that were never recorded were added out of order.
	// A file whose revision is partial was not applied either: it has to be resumed.
	var w []File
	for _, m := range migs[:cut] {
		if m.Version < revs[0].Version {
			continue // pre-history
		}
		if r, ok := recorded[m.Version]; !ok || r.Partial() {
			w = append(w, m)
		}
	}
	if len(w) > 0 {
		switch o.Order {
		case "linear-skip":
		case "non-linear":
			p = append(append([]File(nil), w...), p...)
		default:
			return Decision{Err: NonLinear, OutOfOrder: w, Pending: p}
		}
	}
	if len(p) == 0 {
		return Decision{Err: NoPending}
	}
	d.Pending = p
	return d
}

// Set computes the documented effect of `migrate set v` on the history: revisions above v
// are removed, every partial or failed revision up to and including v is marked resolved, and every file after
// the last remaining revision up to and including v gets a resolved revision.
func Set(files []File, revs []Rev, v string) []Rev {
	files = append([]File(nil), files...)
	sort.Slice(files, func(i, j int) bool { return files[i].Name < files[j].Name })
	var out []Rev
	for _, r := range revs {
		switch {
		case r.Version > v:
		case r.Applied != r.Total: // at or below v: "all migrations up to and including v are applied"
			r.Resolved = true
			out = append(out, r)
		default:
			out = append(out, r)
		}
	}
	sort.Slice(out, func(i, j int) bool { return out[i].Version < out[j].Version })
	last := ""
	if len(out) > 0 {
		last = out[len(out)-1].Version
	}
	for _, f := range files {
		if f.Version > last && f.Version <= v {
			out = append(out, Rev{Version: f.Version, Resolved: true})
		}
	}
	return out
}
