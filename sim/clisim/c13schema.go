package clisim

import (
	"fmt"
	"os"
	"path/filepath"
	"strings"

	"ariga.io/atlas/sql/schema"
	"ariga.io/atlas/sql/sqlite"

	"verif/sim/observe"
	"verif/sim/simkit"
)

// sTable is a small table model for the schema-apply scenarios.
type sTable struct {
	Name     string
	Extra    bool   // extra text column
	DropN    bool   // column n removed
	IdxN     bool   // index on n
	UniqueV  bool   // unique index on v
	NotNullN bool   // n NOT NULL (no default)
	Check    string // CHECK expression
}

func (m sTable) build() *schema.Table {
	t := schema.NewTable(m.Name)
	id := schema.NewIntColumn("id", "integer")
	v := schema.NewNullStringColumn("v", "text")
	t.AddColumns(id, v)
	var n *schema.Column
	if !m.DropN {
		if m.NotNullN {
			n = schema.NewIntColumn("n", "integer")
		} else {
			n = schema.NewNullIntColumn("n", "integer")
		}
		t.AddColumns(n)
	}
	if m.Extra {
		t.AddColumns(schema.NewNullStringColumn("extra", "text"))
	}
	t.SetPrimaryKey(schema.NewPrimaryKey(id))
	if m.IdxN && n != nil {
		t.AddIndexes(schema.NewIndex(m.Name + "_n").AddColumns(n))
	}
	if m.UniqueV {
		t.AddIndexes(schema.NewUniqueIndex(m.Name + "_v").AddColumns(v))
	}
	if m.Check != "" {
		t.AddChecks(schema.NewCheck().SetName(m.Name + "_chk").SetExpr(m.Check))
	}
	return t
}

func hclOf(tables []sTable) string {
	s := schema.New("main")
	for _, m := range tables {
		s.AddTables(m.build())
	}
	b, err := sqlite.MarshalHCL(s)
	if err != nil {
		simkit.Harnessf("MarshalHCL: %v", err)
	}
	return string(b)
}

func describeTables(ts []sTable) string {
	var parts []string
	for _, m := range ts {
		var f []string
		if m.Extra {
			f = append(f, "+extra")
		}
		if m.DropN {
			f = append(f, "-n")
		}
		if m.IdxN {
			f = append(f, "idx(n)")
		}
		if m.UniqueV {
			f = append(f, "UNIQUE(v)")
		}
		if m.NotNullN {
			f = append(f, "n NOT NULL")
		}
		if m.Check != "" {
			f = append(f, "CHECK("+m.Check+")")
		}
		parts = append(parts, m.Name+"{"+strings.Join(f, ",")+"}")
	}
	return strings.Join(parts, " ")
}

func fullDigest(d *observe.Dump) string {
	return d.Digest() + ":" + strings.Join(d.Master, "\n")
}

// C13Schema — `schema apply` is all-or-nothing in its default mode; --dry-run changes nothing.
func C13Schema(r *simkit.Run) {
	t := r.T
	w := NewWorld(r)
	nt := t.Range("tables", 2, 4)
	var cur []sTable
	for i := 1; i <= nt; i++ {
		cur = append(cur, sTable{Name: fmt.Sprintf("t%d", i), IdxN: t.Chance("cur-idx", 1, 3)})
	}
	s0 := filepath.Join(w.Root, "s0.hcl")
	os.WriteFile(s0, []byte(hclOf(cur)), 0o644)
	res := w.Atlas(nil, "schema", "apply", "-u", w.URL(), "--to", "file://"+s0, "--auto-approve")
	if res.Exit != 0 {
		r.Fail(propC13, "schema-apply-clean", "initial-schema-apply-failed", "creating the initial schema failed: %s", res.ErrLine())
		return
	}
	// Populate: duplicates in v, NULLs and negatives in n.
	db, err := observe.Open(w.DB)
	if err != nil {
		simkit.Harnessf("open: %v", err)
	}
	for _, m := range cur {
		rows := t.Range("rows", 5, 9)
		for k := 1; k <= rows; k++ {
			v := fmt.Sprintf("'v%d'", k%3) // duplicates
			n := fmt.Sprint(k - 2)         // -1, 0, 1, ...
			if k%4 == 0 {
				n = "NULL"
			}
			if _, err := db.Exec(fmt.Sprintf("INSERT INTO %s (id, v, n) VALUES (%d, %s, %s)", m.Name, k, v, n)); err != nil {
				simkit.Harnessf("insert: %v", err)
			}
		}
	}
	db.Close()
	// Desired state: one change per table; in fault-injecting runs one of them cannot succeed on the data.
	des := append([]sTable(nil), cur...)
	faultFree := t.Chance("fault-free-run", 1, 5)
	poisonAt := -1
	if !faultFree {
		poisonAt = t.Draw("poison-table", nt)
		r.Tag("fault-injecting")
	} else {
		r.Tag("fault-free")
	}
	poison := ""
	for i := range des {
		if i == poisonAt {
			switch t.Draw("poison-kind", 3) {
			case 0:
				des[i].UniqueV, poison = true, "unique-on-duplicates"
			case 1:
				des[i].NotNullN, poison = true, "not-null-on-nulls"
			default:
				des[i].Check, poison = "n >= 0", "check-violated-by-rows"
			}
			continue
		}
		switch t.Draw("benign-change", 5) {
		case 0:
			des[i].Extra = true
		case 1:
			des[i].IdxN = !des[i].IdxN
		case 2:
			des[i].DropN, des[i].IdxN = true, false
		case 3:
			des[i].Check = "id > 0"
		}
	}
	if t.Chance("new-table", 1, 2) {
		name := "t0"
		if t.Chance("new-table-last", 1, 2) {
			name = "t9"
		}
		des = append(des, sTable{Name: name})
	}
	if t.Chance("drop-table", 1, 4) && poisonAt != 0 && len(des) > 1 {
		des = des[1:]
		if poisonAt > 0 {
			poisonAt--
		}
	}
	s1 := filepath.Join(w.Root, "s1.hcl")
	os.WriteFile(s1, []byte(hclOf(des)), 0o644)
	r.Sample("current: %s; rows with duplicate v, NULL and negative n", describeTables(cur))
	r.Sample("desired: %s (poison: %s)", describeTables(des), poison)
	r.Logf("cur=%s des=%s poison=%s", describeTables(cur), describeTables(des), poison)
	before := w.Observe()
	// 1. --dry-run changes nothing.
	res = w.Atlas(nil, "schema", "apply", "-u", w.URL(), "--to", "file://"+s1, "--dry-run")
	after := w.Observe()
	r.Logf("dry-run -> %s same=%v", res.Class(), fullDigest(after) == fullDigest(before))
	r.Sample("`schema apply --dry-run` -> %s, database unchanged=%v", res.Class(), fullDigest(after) == fullDigest(before))
	if res.Panicked {
		r.Fail(propC13, "panic", "panic/schema-dry-run", "schema apply --dry-run panicked: %s", res.ErrLine())
		return
	}
	if fullDigest(after) != fullDigest(before) {
		r.Fail(propC13, "dry-run", "dry-run-changed-state/schema-apply", "`schema apply --dry-run` changed the database")
		return
	}
	if res.Exit != 0 {
		r.Fail(propC13, "dry-run", "dry-run-failed/schema-apply", "`schema apply --dry-run` failed: %s", res.ErrLine())
		return
	}
	r.Fired("dry-run")
	// 2. Default mode: all-or-nothing.
	res = w.Atlas(nil, "schema", "apply", "-u", w.URL(), "--to", "file://"+s1, "--auto-approve")
	after = w.Observe()
	same := fullDigest(after) == fullDigest(before)
	r.Logf("apply -> %s same=%v", res.Class(), same)
	r.Sample("`schema apply --auto-approve` -> %s (%s), database unchanged=%v", res.Class(), res.ErrLine(), same)
	r.Nontrivial()
	if res.Panicked {
		r.Fail(propC13, "panic", "panic/schema-apply", "schema apply panicked: %s", res.ErrLine())
		return
	}
	if poisonAt < 0 {
		if res.Exit != 0 {
			r.Fail(propC13, "schema-apply-clean", "clean-schema-apply-failed", "fault-free `schema apply` failed: %s", res.ErrLine())
		}
		return
	}
	r.Fired("plan-fails-on-data/" + poison)
	if res.Exit == 0 {
		r.Fail(propC13, "schema-apply-atomicity", "poisoned-plan-succeeded/"+poison, "a plan that cannot succeed on the data (%s) exited 0", poison)
		return
	}
	if !same {
		r.Fail(propC13, "schema-apply-atomicity", "schema-apply-not-atomic/"+poison, "`schema apply` failed (%s) but left the database changed:\nbefore:\n%s\nafter:\n%s", res.ErrLine(), strings.Join(before.Master, "\n"), strings.Join(after.Master, "\n"))
		return
	}
	// Reach probe: the same plan without a transaction shows whether the failure came after progress.
	res = w.Atlas(nil, "schema", "apply", "-u", w.URL(), "--to", "file://"+s1, "--auto-approve", "--tx-mode", "none")
	after = w.Observe()
	r.Logf("apply none -> %s same=%v", res.Class(), fullDigest(after) == fullDigest(before))
	if res.Exit != 0 && fullDigest(after) != fullDigest(before) {
		r.Probe("plan-failed-after-progress")
	}
}
