package clisim

import (
	"fmt"
	"strings"

	"verif/sim/observe"
	"verif/sim/simkit"
)

// CommitPoints are the instants right before a COMMIT of `migrate apply`.
var CommitPoints = map[string]string{"file": "apply:before-file-commit", "all": "apply:before-final-commit"}

// C13Commit — the failure is not a statement but the COMMIT itself: the real CLI is parked right
// before it commits (a file's transaction in file mode, the whole run in all mode) while another
// connection starts reading the database and keeps its read transaction open. The COMMIT then
// cannot get the exclusive lock and fails with "database is locked". Failure atomicity asks for
// the same state as after any other failure: everything before the failed transaction stays,
// nothing of it is visible, and a clean re-run completes with every statement exactly once.
func C13Commit(r *simkit.Run) {
	t := r.T
	w := NewWorld(r)
	g := []string{"file", "all"}[int(r.Env.RunIndex)%2]
	point := CommitPoints[g]
	files := GenDir(t, 1, 4, 3, true)
	w.WriteDir(files)
	occ := 1
	if g == "file" {
		occ = 1 + t.Draw("commit-occurrence", len(files))
	}
	r.Sample("tx-mode=%s dir: %s; a reader keeps its transaction open while `migrate apply` is parked at %s (hit %d)", g, Describe(files), point, occ)
	args := []string{"migrate", "apply", "--dir", w.DirURL(), "--url", w.URL(), "--tx-mode", g}
	db, err := observe.Open(w.DB)
	if err != nil {
		simkit.Harnessf("open: %v", err)
	}
	defer db.Close()
	// The database file has to exist with something to read before the CLI starts.
	if _, err := db.Exec("CREATE TABLE IF NOT EXISTS reader_anchor (x int)"); err != nil {
		simkit.Harnessf("anchor: %v", err)
	}
	reading := false
	res, reached := w.atlasPaused(point, occ, func() {
		if _, err := db.Exec("BEGIN"); err != nil {
			simkit.Harnessf("reader begin: %v", err)
		}
		var n int
		if err := db.QueryRow("SELECT count(*) FROM reader_anchor").Scan(&n); err != nil {
			simkit.Harnessf("reader select: %v", err)
		}
		reading = true
	}, append(args, "--allow-dirty")...)
	if reading {
		if _, err := db.Exec("ROLLBACK"); err != nil {
			simkit.Harnessf("reader end: %v", err)
		}
	}
	d := w.Observe()
	r.Logf("reader@%s#%d reached=%v -> %s effects=%s revs=[%s]", point, occ, reached, res.Class(), EffectVector(d, files), d.RevDigest())
	r.Sample("-> %s (%s); effects %s revisions [%s]", res.Class(), firstN(res.ErrLine(), 120), EffectVector(d, files), d.RevDigest())
	r.Nontrivial()
	if res.Panicked {
		r.Fail(propC13, "panic", "panic/commit-failure", "migrate apply panicked: %s", res.ErrLine())
		return
	}
	c := &c10{r: r, w: w, files: files, mode: g, allowedDup: map[string]int{}}
	if !reached {
		r.Probe("commit-point-not-reached")
		if res.Exit != 0 {
			r.Fail(propC13, "liveness", "clean-apply-failed/commit", "`migrate apply` without a reached pause point failed: %s", res.ErrLine())
		}
		return
	}
	r.Fired("commit-fails-database-locked/" + g)
	if res.Exit == 0 {
		r.Fail(propC13, "exit-status", "commit-error-swallowed/"+g, "the COMMIT at %s met a locked database but the command exited 0", point)
		return
	}
	if !strings.Contains(res.Stderr+res.Stdout, "locked") {
		r.Fail(propC13, "exit-status", "unexpected-error/commit/"+g, "expected a 'database is locked' failure at %s, got: %s", point, res.ErrLine())
		return
	}
	// State: the files whose transaction committed before are complete, the rest left no trace.
	committed := 0
	if g == "file" {
		committed = occ - 1
	}
	for i, f := range files {
		switch {
		case i < committed && !c.complete(d, f):
			r.Fail(propC13, "apply-atomicity", "commit-failure-lost-earlier-file/"+g, "the COMMIT of file %d failed; %s was committed before it and must be complete: effects %s revisions [%s]", occ, f.Name, EffectVector(d, files), d.RevDigest())
			return
		case i >= committed && !c.untouched(d, f):
			r.Fail(propC13, "apply-atomicity", "commit-failure-left-traces/"+g, "the COMMIT at %s (hit %d) failed, yet %s has effects or a revision: effects %s revisions [%s]", point, occ, f.Name, EffectVector(d, files), d.RevDigest())
			return
		}
	}
	// Faults stop: a clean run completes, every statement exactly once.
	res = w.Atlas(nil, append(args, "--allow-dirty")...)
	d = w.Observe()
	r.Logf("clean apply -> %s effects=%s revs=[%s]", res.Class(), EffectVector(d, files), d.RevDigest())
	r.Sample("clean `migrate apply --tx-mode %s` -> %s; effects %s revisions [%s]", g, res.Class(), EffectVector(d, files), d.RevDigest())
	if res.Exit != 0 {
		r.Fail(propC13, "fix-rerun", "rerun-after-commit-failure-fails/"+g, "after the failed COMMIT a clean `migrate apply` does not complete: %s", res.ErrLine())
		return
	}
	for _, f := range files {
		if !c.complete(d, f) {
			r.Fail(propC13, "fix-rerun", "incomplete-after-commit-failure/"+g, "%s is not complete at the end: effects %s revisions [%s]", f.Name, EffectVector(d, files), d.RevDigest())
			return
		}
		for _, s := range f.Stmts {
			if n := Effect(d, s); n > 1 {
				r.Fail(propC13, "fix-rerun", "statement-repeated-after-commit-failure/"+g, fmt.Sprintf("statement %s took effect %d times", s.ID, n))
				return
			}
		}
	}
}
