package clisim

import (
	"bytes"
	"fmt"
	"os"
	"path/filepath"
	"strings"

	"verif/sim/observe"
	"verif/sim/simkit"
)

const propC14 = "C14"

// DevCommands are the community commands that take --dev-url.
var DevCommands = []string{"migrate-validate", "migrate-diff", "migrate-lint", "schema-apply-dir", "schema-apply-sql", "schema-diff-sql", "schema-inspect-sql", "schema-apply-hcl-dev"}

// DevStates are the initial states of the dev database.
var DevStates = []string{"no-file", "empty-file", "user-tables", "leftovers", "view-only", "virtual-tables", "table-named-like-internal", "revisions-table-only"}

func devMaster(d *observe.Dump) string {
	m := append([]string(nil), d.Master...)
	if d.HasRevTbl {
		m = append(m, "table|"+observe.RevTable)
	}
	return strings.Join(m, "\n")
}

func devDigest(d *observe.Dump) string {
	return devMaster(d) + "\n#" + d.UserDigest() + "\n" + d.RevFull()
}

func dirEqual(a, b map[string]string, allowNew bool) (bool, string) {
	for n, c := range a {
		if nb, ok := b[n]; !ok {
			return false, "file " + n + " disappeared"
		} else if nb != c && !(allowNew && n == "atlas.sum") {
			return false, "file " + n + " was rewritten"
		}
	}
	added := 0
	for n := range b {
		if _, ok := a[n]; !ok {
			added++
			if !allowNew {
				return false, "file " + n + " was created"
			}
		}
	}
	if allowNew && added > 1 {
		return false, fmt.Sprintf("%d files were created", added)
	}
	return true, ""
}

// C14 — the dev database is refused if not empty (and left untouched), otherwise handed back empty.
func C14(r *simkit.Run) {
	t := r.T
	w := NewWorld(r)
	// A dev database that can no longer be opened is the worst kind of damage, not harness trouble.
	readDev := func(when string) *observe.Dump {
		d, err := observe.Read(w.DevDB)
		if err != nil {
			r.Nontrivial()
			r.Fail(propC14, "handed-back-empty", "dev-database-damaged", "%s: the dev database file cannot be read any more: %v", when, err)
			return &observe.Dump{Rows: map[string][]string{}}
		}
		return d
	}
	cell := int(r.Env.RunIndex) % (len(DevCommands) * len(DevStates))
	command := DevCommands[cell%len(DevCommands)]
	state := DevStates[cell/len(DevCommands)]
	// The replayed directory / SQL schema: real DDL, optionally one statement that fails.
	files := GenDir(t, 1, 3, 4, true)
	// Give the directory real tables so that diff / lint have something to look at.
	for _, f := range files {
		for k := range f.Stmts {
			if f.Stmts[k].Kind == KInsert && t.Chance("make-ddl", 1, 2) {
				f.Stmts[k] = MkStmt(fmt.Sprintf("f%d", f.Idx), k, KDDL)
			}
		}
	}
	// Triggers and views: objects the snapshot/restore has to cope with besides tables and indexes.
	if t.Chance("trigger-in-directory", 1, 3) {
		f := files[len(files)-1]
		k := len(f.Stmts)
		f.Stmts = append(f.Stmts,
			Stmt{ID: fmt.Sprintf("f%d.s%d", f.Idx, k), Kind: KDDL, SQL: fmt.Sprintf("CREATE TRIGGER trg_f%d AFTER INSERT ON journal BEGIN UPDATE journal SET n = n + 1 WHERE id = new.id; END", f.Idx)},
			Stmt{ID: fmt.Sprintf("f%d.s%d", f.Idx, k+1), Kind: KDDL, SQL: fmt.Sprintf("CREATE VIEW view_f%d AS SELECT id FROM journal", f.Idx)})
		r.Probe("directory-with-trigger-and-view")
	}
	// Faults: a failing statement; a failing statement inside an explicit BEGIN ... COMMIT block (the
	// failure leaves the block's transaction open); a transaction block that is never closed; an
	// object every statement creates fine but the state reading that follows the replay cannot
	// digest (the failure happens between the replay and the restore); a process crash.
	// Sometimes a later file is a checkpoint (it stands for everything before it): a replay starts
	// from it, and lint restores the dev database to empty before it loads one.
	// Whatever fails is placed where a replay passes: in the checkpoint or after it.
	firstReplayed := 0
	if len(files) > 1 && t.Chance("checkpoint-in-directory", 1, 4) {
		firstReplayed = 1 + t.Draw("checkpoint-file", len(files)-1)
		f := files[firstReplayed]
		f.Checkpoint = true
		f.Stmts = append([]Stmt{{ID: fmt.Sprintf("f%d.ck", f.Idx), Kind: KDDL, SQL: journalDDL}}, f.Stmts...)
		r.Probe("directory-with-checkpoint")
	}
	// Sometimes a file gathers statistics (ANALYZE): the engine then keeps a table of its own,
	// sqlite_stat1, with rows in it.
	analyze := t.Chance("directory-runs-analyze", 1, 5)
	if analyze {
		f := files[firstReplayed+t.Draw("analyze-file", len(files)-firstReplayed)]
		f.Stmts = append(f.Stmts,
			Stmt{ID: fmt.Sprintf("f%d.ix", f.Idx), Kind: KDDL, SQL: fmt.Sprintf("CREATE INDEX IF NOT EXISTS journal_n_f%d ON journal (n)", f.Idx)},
			Stmt{ID: fmt.Sprintf("f%d.an", f.Idx), Kind: KDDL, SQL: "ANALYZE"})
		r.Probe("directory-runs-analyze")
	}
	// Sometimes a file wraps some of its statements in an explicit, well-formed BEGIN ... COMMIT
	// block: whatever stops the replay inside it (a crash, an interrupt) stops it with that
	// transaction open.
	if t.Chance("well-formed-transaction-block", 1, 4) {
		f := files[t.Draw("block-file", len(files))]
		tag := fmt.Sprintf("f%d", f.Idx)
		k := len(f.Stmts)
		f.Stmts = append(f.Stmts,
			Stmt{ID: fmt.Sprintf("%s.s%d", tag, k), Kind: KDDL, SQL: "BEGIN"},
			Stmt{ID: fmt.Sprintf("%s.s%d", tag, k+1), Kind: KDDL, SQL: fmt.Sprintf("CREATE TABLE blk1_%s (id int)", tag)},
			Stmt{ID: fmt.Sprintf("%s.s%d", tag, k+2), Kind: KDDL, SQL: fmt.Sprintf("CREATE TABLE blk2_%s (id int)", tag)},
			Stmt{ID: fmt.Sprintf("%s.s%d", tag, k+3), Kind: KDDL, SQL: "COMMIT"})
		r.Probe("directory-with-transaction-block")
	}
	fault := []string{"none", "bad-statement", "crash", "bad-statement-in-transaction-block", "unterminated-transaction-block", "unreadable-object", "interrupt"}[t.Weighted("fault", 2, 3, 2, 1, 1, 2, 2)]
	if command == "migrate-lint" && (fault == "crash" || fault == "interrupt") {
		fault = "bad-statement" // lint replays with its own loop: no instrumented point
	}
	// Objects SQLite accepts and the inspector rejects: a self reference to a missing column, a
	// partial index whose WHERE is not spelled in upper case.
	unreadable := func(table, col string) string {
		if t.Chance("unreadable-kind", 1, 2) {
			return fmt.Sprintf("CREATE TABLE fkbad_%s (id int, p int REFERENCES fkbad_%s(nope))", table, table)
		}
		return fmt.Sprintf("CREATE INDEX part_%s ON %s (%s) where %s > 0", table, table, col, col)
	}
	// With an HCL source the SQLite driver never executes anything on the dev database (it has
	// no normaliser): the command cannot damage it, and the oracle only asks that it is untouched.
	devUnused := command == "schema-apply-hcl-dev"
	if devUnused {
		fault = "none"
	}
	sqlSchema := func(bad int) string {
		var b strings.Builder
		n := t.Range("sql-schema-tables", 1, 4)
		for i := 1; i <= n; i++ {
			if i == bad || (bad > n && i == n) {
				switch fault {
				case "bad-statement-in-transaction-block":
					b.WriteString("BEGIN;\nCREATE TABLE inblock (id int);\nCREATE TABLE broken (id int REFERENCES);\nCOMMIT;\n")
				case "unterminated-transaction-block":
					b.WriteString("BEGIN;\nCREATE TABLE inblock (id int);\n")
				case "unreadable-object":
					fmt.Fprintf(&b, "CREATE TABLE s%d (id int, v text);\n%s;\n", i, unreadable(fmt.Sprintf("s%d", i), "id"))
				default:
					b.WriteString("CREATE TABLE broken (id int REFERENCES);\n")
				}
				continue
			}
			fmt.Fprintf(&b, "CREATE TABLE s%d (id int, v text);\n", i)
			if t.Chance("sql-schema-index", 1, 3) {
				fmt.Fprintf(&b, "CREATE INDEX s%d_v ON s%d (v);\n", i, i)
				if analyze {
					b.WriteString("ANALYZE;\n")
				}
			}
		}
		return b.String()
	}
	usesDir := command == "migrate-validate" || command == "migrate-diff" || command == "migrate-lint" || command == "schema-apply-dir"
	badPos := 0
	if fault == "bad-statement" {
		if usesDir {
			f := files[firstReplayed+t.Draw("bad-file", len(files)-firstReplayed)]
			k := t.Draw("bad-stmt", len(f.Stmts))
			if f.Idx == 1 && k == 0 {
				f.Stmts = append(f.Stmts, MkStmt("f1", len(f.Stmts), KBad))
			} else {
				f.Stmts[k] = MkStmt(fmt.Sprintf("f%d", f.Idx), k, KBad)
			}
		} else {
			badPos = 1 + t.Draw("bad-sql-pos", 3)
		}
	}
	if fault == "bad-statement-in-transaction-block" || fault == "unterminated-transaction-block" || fault == "unreadable-object" {
		if usesDir {
			f := files[firstReplayed+t.Draw("bad-file", len(files)-firstReplayed)]
			tag := fmt.Sprintf("f%d", f.Idx)
			add := func(sql string) {
				f.Stmts = append(f.Stmts, Stmt{ID: fmt.Sprintf("%s.s%d", tag, len(f.Stmts)), Kind: KDDL, SQL: sql})
			}
			switch fault {
			case "bad-statement-in-transaction-block":
				add("BEGIN")
				add(fmt.Sprintf("CREATE TABLE inblock_%s (id int)", tag))
				f.Stmts = append(f.Stmts, MkStmt(tag, len(f.Stmts), KBad))
				add("COMMIT")
			case "unterminated-transaction-block":
				add("BEGIN")
				add(fmt.Sprintf("CREATE TABLE inblock_%s (id int)", tag))
			default:
				add(unreadable("journal", "n"))
			}
		} else {
			badPos = 1 + t.Draw("bad-sql-pos", 3)
		}
	}
	w.WriteDir(files)
	schemaSQL := filepath.Join(w.Root, "schema.sql")
	os.WriteFile(schemaSQL, []byte(sqlSchema(badPos)), 0o644)
	otherSQL := filepath.Join(w.Root, "other.sql")
	os.WriteFile(otherSQL, []byte("CREATE TABLE o1 (id int);\n"), 0o644)
	schemaHCL := filepath.Join(w.Root, "schema.hcl")
	hcl := []sTable{{Name: "h1"}, {Name: "h2", IdxN: true}}
	os.WriteFile(schemaHCL, []byte(hclOf(hcl)), 0o644)

	argsOf := func() []string {
		switch command {
		case "migrate-validate":
			return []string{"migrate", "validate", "--dir", w.DirURL(), "--dev-url", w.DevURL()}
		case "migrate-diff":
			return []string{"migrate", "diff", "added", "--dir", w.DirURL(), "--to", "file://" + schemaHCL, "--dev-url", w.DevURL()}
		case "migrate-lint":
			return []string{"migrate", "lint", "--dir", w.DirURL(), "--dev-url", w.DevURL(), "--latest", fmt.Sprint(1 + t.Draw("lint-latest", len(files)))}
		case "schema-apply-dir":
			return []string{"schema", "apply", "-u", w.URL(), "--to", w.DirURL(), "--dev-url", w.DevURL(), "--auto-approve"}
		case "schema-apply-sql":
			return []string{"schema", "apply", "-u", w.URL(), "--to", "file://" + schemaSQL, "--dev-url", w.DevURL(), "--auto-approve"}
		case "schema-diff-sql":
			return []string{"schema", "diff", "--from", "file://" + otherSQL, "--to", "file://" + schemaSQL, "--dev-url", w.DevURL()}
		case "schema-inspect-sql":
			return []string{"schema", "inspect", "-u", "file://" + schemaSQL, "--dev-url", w.DevURL()}
		case "schema-apply-hcl-dev":
			return []string{"schema", "apply", "-u", w.URL(), "--to", "file://" + schemaHCL, "--dev-url", w.DevURL(), "--auto-approve"}
		}
		simkit.Harnessf("unknown command %s", command)
		return nil
	}
	run := func(env []string) CmdResult { return w.Atlas(env, argsOf()...) }
	// Target database of `schema apply`: a populated table that must survive a failed dev replay.
	if strings.HasPrefix(command, "schema-apply") {
		db, err := observe.Open(w.DB)
		if err != nil {
			simkit.Harnessf("open: %v", err)
		}
		if _, err := db.Exec("CREATE TABLE keepme (id int); INSERT INTO keepme VALUES (1),(2),(3)"); err != nil {
			simkit.Harnessf("target: %v", err)
		}
		db.Close()
	}
	// Initial dev state.
	switch state {
	case "empty-file", "user-tables", "view-only", "virtual-tables", "table-named-like-internal":
		db, err := observe.Open(w.DevDB)
		if err != nil {
			simkit.Harnessf("open dev: %v", err)
		}
		stmts := "CREATE TABLE tmp_init (x int); DROP TABLE tmp_init"
		switch state {
		case "user-tables":
			stmts = "CREATE TABLE precious (id int, v text); INSERT INTO precious VALUES (1,'a'),(2,'b'); CREATE INDEX precious_v ON precious (v)"
		case "table-named-like-internal":
			// Ordinary user tables whose names merely start like SQLite's (or libSQL's) internal ones.
			name := []string{"sqlitedata", "sqlite3_backup", "libsqlxdata", "sqlite0"}[t.Draw("internal-like-name", 4)]
			stmts = fmt.Sprintf("CREATE TABLE %s (id int, v text); INSERT INTO %s VALUES (1,'a'),(2,'b')", name, name)
		case "view-only":
			stmts = "CREATE VIEW only_view AS SELECT 1 AS one"
			switch t.Weighted("view-name", 2, 1, 1) {
			case 1:
				stmts = "CREATE VIEW \"\" AS SELECT 1 AS one"
				r.Probe("view-with-empty-name")
			case 2:
				// A user's view whose name merely starts like SQLite's internal objects.
				stmts = fmt.Sprintf("CREATE VIEW %s AS SELECT 1 AS one", []string{"sqlite3_compat", "sqlitestudio_meta", "sqliteview"}[t.Draw("internal-like-view-name", 3)])
				r.Probe("view-named-like-internal")
			}
		case "virtual-tables":
			// Full-text and R*Tree tables: virtual tables plus the shadow tables that hold their rows.
			stmts = "CREATE VIRTUAL TABLE docs USING fts4(body); INSERT INTO docs (body) VALUES ('precious text'); CREATE VIRTUAL TABLE boxes USING rtree(id, minx, maxx); INSERT INTO boxes VALUES (1, 0.0, 1.0)"
		}
		if _, err := db.Exec(stmts); err != nil {
			simkit.Harnessf("dev init: %v", err)
		}
		db.Close()
	case "revisions-table-only":
		// Reached, not fabricated: the database was once the *target* of `migrate apply`, and what the
		// migrations created has been dropped since. All it holds is Atlas's own revisions table, with
		// the history of that deployment in it.
		cw := *w
		cw.Mig = filepath.Join(w.Root, "earlier")
		os.MkdirAll(cw.Mig, 0o755)
		os.WriteFile(filepath.Join(cw.Mig, "1_init.sql"), []byte("CREATE TABLE once (id int);\nDROP TABLE once;\n"), 0o644)
		if res := w.Atlas(nil, "migrate", "hash", "--dir", "file://"+cw.Mig); res.Exit != 0 {
			simkit.Harnessf("migrate hash of the earlier directory: %s", res.ErrLine())
		}
		if res := w.Atlas(nil, "migrate", "apply", "--dir", "file://"+cw.Mig, "-u", w.DevURL()); res.Exit != 0 {
			simkit.Harnessf("migrate apply onto the later dev database: %s", res.ErrLine())
		}
	case "leftovers":
		// Reached, not fabricated: an earlier `migrate validate --dev-url` is killed in the middle of its replay.
		clean := GenDir(t, 1, 2, 3, true)
		cw := *w
		cw.Mig = filepath.Join(w.Root, "earlier")
		os.MkdirAll(cw.Mig, 0o755)
		cw.WriteDir(clean)
		res := w.Atlas([]string{"VERIF_CRASH_AT=replay:before-restore:1"}, "migrate", "validate", "--dir", "file://"+cw.Mig, "--dev-url", w.DevURL())
		if !res.Killed {
			r.Fail(propC14, "harness-expectation", "crash-point-not-reached/leftovers", "replay:before-restore was not reached by migrate validate --dev-url: %s", res.ErrLine())
			return
		}
		w.ExpireLease()
		r.Fired("crash-in-earlier-replay")
	}
	devBefore := readDev("before the command")
	if r.Failed() {
		return
	}
	devBytes, _ := os.ReadFile(w.DevDB)
	nonEmpty := len(devBefore.Master) > 0 || devBefore.HasRevTbl
	if state == "leftovers" && !nonEmpty {
		r.Fail(propC14, "harness-expectation", "no-leftovers-after-crash", "a replay killed before restore left the dev database empty")
		return
	}
	dirBefore := w.DirSnapshot()
	targetBefore := w.Observe()
	var env []string
	if fault == "crash" {
		pts := []string{"replay:before-restore", "exec:after-stmt", "exec:before-stmt", "exec:after-init-write", "replay:after-restore"}
		p := pts[t.Draw("crash-point", len(pts))]
		env = []string{fmt.Sprintf("VERIF_CRASH_AT=%s:%d", p, 1+t.Draw("crash-occurrence", 3))}
		r.Configured("crash-in-replay")
	}
	var res CmdResult
	if fault == "interrupt" {
		// Ctrl-C while the replay is under way: the process is parked at a point of the replay, gets
		// SIGINT, acknowledges it (its context is cancelled) and is released.
		pts := []string{"exec:before-stmt", "exec:after-stmt", "replay:before-restore"}
		p := pts[t.Draw("interrupt-point", len(pts))]
		occ := 1 + t.Draw("interrupt-occurrence", 8)
		r.Configured("interrupt-in-replay")
		var reached bool
		res, reached = w.atlasInterrupted(p, occ, argsOf()...)
		if reached {
			r.Fired("interrupt-in-replay")
			r.Fired("interrupt@" + p)
		} else {
			fault = "none"
		}
	} else {
		res = run(env)
	}
	if _, err := observe.Read(w.DevDB); err != nil {
		r.Nontrivial()
		r.Fail(propC14, "handed-back-empty", "dev-database-damaged/"+command, "after `%s` (fault=%s -> %s) the dev database file cannot be read any more: %v", command, fault, res.Class(), err)
		return
	}
	devAfter := readDev("after `" + command + "`")
	if r.Failed() {
		return
	}
	devBytesAfter, _ := os.ReadFile(w.DevDB)
	dirAfter := w.DirSnapshot()
	targetAfter := w.Observe()
	r.Logf("cmd=%s dev=%s fault=%s -> %s dev objects %d -> %d", command, state, fault, res.Class(), len(devBefore.Master), len(devAfter.Master))
	r.Sample("dev database: %s; directory %s; `%s` with fault=%s -> %s (%s); dev objects before=%d after=%d", state, Describe(files), command, fault, res.Class(), firstN(res.ErrLine(), 160), len(devBefore.Master), len(devAfter.Master))
	r.Nontrivial()
	r.Probe("cell:" + command + ":" + state)
	sig := func(s string) string { return s + "/" + command }
	if res.Panicked {
		r.Fail(propC14, "no-crash", sig("panic"), "%s panicked: %s", command, res.ErrLine())
		return
	}
	// The directory is never written by a replay (migrate diff may add its one file + sum on success).
	if ok, why := dirEqual(dirBefore, dirAfter, command == "migrate-diff" && res.Exit == 0); !ok {
		r.Fail(propC14, "dir-untouched", sig("directory-written"), "%s changed the migration directory: %s", command, why)
		return
	}
	if res.Killed {
		r.Fired("crash-in-replay")
		// A killed command cannot clean up; what matters is the next command (below).
		w.ExpireLease()
		left := readDev("after the crash")
		if r.Failed() {
			return
		}
		if len(left.Master) > 0 {
			r.Probe("leftovers-after-crash")
		}
		res2 := run(nil)
		dev2 := readDev("after the follow-up command")
		if r.Failed() {
			return
		}
		r.Logf("next %s on crashed dev -> %s same=%v", command, res2.Class(), devDigest(dev2) == devDigest(left))
		r.Sample("next `%s` on the dev database the crash left behind -> %s (%s)", command, res2.Class(), firstN(res2.ErrLine(), 120))
		if len(left.Master) > 0 {
			if res2.Exit == 0 || !strings.Contains(res2.Stderr+res2.Stdout, "not clean") {
				r.Fail(propC14, "refuse-non-empty", sig("not-refused/leftovers"), "dev database holds leftovers of a crashed replay but %s -> %s: %s", command, res2.Class(), res2.ErrLine())
			} else if devDigest(dev2) != devDigest(left) {
				r.Fail(propC14, "refuse-non-empty", sig("refused-but-modified/leftovers"), "%s refused the dirty dev database but changed it", command)
			}
		}
		return
	}
	if nonEmpty {
		what := state
		if devUnused {
			r.Probe("dev-url-given-but-never-written")
			if devDigest(devAfter) != devDigest(devBefore) {
				r.Fail(propC14, "refuse-non-empty", sig("modified-non-empty-dev/"+what), "`%s` changed a non-empty dev database", command)
			}
			return
		}
		if res.Exit == 0 || !strings.Contains(res.Stderr+res.Stdout, "not clean") {
			r.Fail(propC14, "refuse-non-empty", sig("not-refused/"+what), "dev database is not empty (%s: %s) but `%s` -> %s: %s", state, firstN(devMaster(devBefore), 120), command, res.Class(), firstN(res.ErrLine(), 200))
			return
		}
		if devDigest(devAfter) != devDigest(devBefore) {
			r.Fail(propC14, "refuse-non-empty", sig("refused-but-modified/"+what), "`%s` refused the non-empty dev database but changed it:\nbefore:\n%s\nafter:\n%s", command, devMaster(devBefore), devMaster(devAfter))
			return
		}
		if !bytes.Equal(devBytes, devBytesAfter) {
			r.Probe("dev-file-bytes-differ-though-logically-equal")
		}
		if targetAfter.Digest() != targetBefore.Digest() {
			r.Fail(propC14, "target-untouched", sig("target-changed-after-refusal"), "`%s` refused the dev database but changed the target", command)
		}
		r.Fired("non-empty-dev")
		return
	}
	// Empty before => empty after, on success and on every failure path.
	if len(devAfter.Master) > 0 || devAfter.HasRevTbl {
		outcome := "success"
		if res.Exit != 0 {
			outcome = "failure"
		}
		r.Fail(propC14, "handed-back-empty", sig("dev-not-empty-after-"+outcome), "`%s` (fault=%s, %s) left objects in the dev database:\n%s", command, fault, outcome, devMaster(devAfter))
		return
	}
	if fault != "none" && fault != "crash" {
		r.Fired("replay-fault/" + fault)
	}
	if fault == "bad-statement" || fault == "bad-statement-in-transaction-block" {
		if res.Exit == 0 && command != "migrate-lint" {
			r.Fail(propC14, "harness-expectation", sig("bad-statement-not-reached"), "the failing statement did not make `%s` fail", command)
			return
		}
		r.Fired("statement-failure-in-replay")
		if strings.HasPrefix(command, "schema-apply") && targetAfter.Digest() != targetBefore.Digest() {
			r.Fail(propC14, "target-untouched", sig("target-changed-after-failed-replay"), "the dev replay failed but `%s` changed the target database", command)
		}
	}
}
