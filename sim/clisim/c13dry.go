package clisim

import (
	"fmt"
	"strings"

	"verif/sim/observe"
	"verif/sim/simkit"
)

// C13Dry — `migrate apply --dry-run` leaves schema, data and revision history unchanged.
func C13Dry(r *simkit.Run) {
	t := r.T
	w := NewWorld(r)
	files := GenDir(t, 1, 4, 3, true)
	if t.Chance("directive", 1, 4) {
		files[t.Draw("directive-file", len(files))].TxMode = []string{"none", "file"}[t.Draw("directive-mode", 2)]
	}
	w.WriteDir(files)
	g := TxModes[t.Draw("tx-mode", 3)]
	// Initial state.
	dirty := t.Chance("dirty-db", 1, 3)
	if dirty {
		db, err := observe.Open(w.DB)
		if err != nil {
			simkit.Harnessf("open: %v", err)
		}
		if _, err := db.Exec("CREATE TABLE legacy (x int); INSERT INTO legacy VALUES (1),(2)"); err != nil {
			simkit.Harnessf("legacy: %v", err)
		}
		db.Close()
	}
	applied := 0
	if t.Chance("initialised", 1, 2) {
		applied = t.Range("applied-files", 1, len(files))
		args := []string{"migrate", "apply", fmt.Sprint(applied), "--dir", w.DirURL(), "--url", w.URL()}
		if dirty {
			args = append(args, "--allow-dirty")
		}
		for _, f := range files {
			if f.TxMode != "" && g == "all" {
				g = "file"
			}
		}
		if res := w.Atlas(nil, args...); res.Exit != 0 {
			r.Fail(propC13, "setup", "initial-apply-failed", "initial clean apply failed: %s", res.ErrLine())
			return
		}
	}
	args := []string{"migrate", "apply"}
	if t.Chance("count-arg", 1, 3) {
		args = append(args, fmt.Sprint(t.Range("count", 1, len(files))))
	}
	args = append(args, "--dir", w.DirURL(), "--url", w.URL(), "--dry-run", "--tx-mode", g)
	opt := "plain"
	switch t.Weighted("first-run-option", 2, 2, 1) {
	case 1:
		v := files[t.Draw("baseline-version", len(files))].Version
		args = append(args, "--baseline", v)
		opt = "baseline"
	case 2:
		args = append(args, "--allow-dirty")
		opt = "allow-dirty"
	}
	state := "fresh"
	switch {
	case applied > 0 && dirty:
		state = "dirty+initialised"
	case applied > 0:
		state = "initialised"
	case dirty:
		state = "dirty"
	}
	before := w.Observe()
	res := w.Atlas(nil, args...)
	after := w.Observe()
	same := fullDigest(after) == fullDigest(before)
	r.Nontrivial()
	r.Fired("dry-run")
	r.Probe("dry-run:" + state + ":" + opt)
	r.Logf("state=%s g=%s dir=%s cmd=%s -> %s same=%v revs=[%s]", state, g, Describe(files), strings.Join(trimURLs(args[2:]), " "), res.Class(), same, after.RevDigest())
	r.Sample("database %s (%d of %d files applied), dir %s", state, applied, len(files), Describe(files))
	r.Sample("`atlas %s` -> %s (%s); unchanged=%v; revisions before [%s] after [%s]", strings.Join(trimURLs(args), " "), res.Class(), res.ErrLine(), same, before.RevDigest(), after.RevDigest())
	if res.Panicked {
		r.Fail(propC13, "panic", "panic/dry-run", "migrate apply --dry-run panicked: %s", res.ErrLine())
		return
	}
	if !same {
		what := "user-objects"
		if before.UserDigest() == after.UserDigest() && strings.Join(before.Master, "\n") == strings.Join(after.Master, "\n") {
			what = "revision-history"
		}
		r.Fail(propC13, "dry-run", fmt.Sprintf("dry-run-changed-state/migrate-apply/%s/%s", opt, what), "`migrate apply --dry-run` (%s, database %s) changed the %s: revisions before [%s] after [%s]", opt, state, what, before.RevDigest(), after.RevDigest())
	}
}

func trimURLs(args []string) []string {
	out := make([]string, len(args))
	for i, a := range args {
		switch {
		case strings.HasPrefix(a, "file://"):
			a = "file://migrations"
		case strings.HasPrefix(a, "sqlite://"):
			a = "sqlite://target.db"
		}
		out[i] = a
	}
	return out
}
