// Package clisim is engine E-B: the real Atlas CLI (built from /repo with -tags verif)
// run as a child process against real SQLite files, with crashes injected at the
// instrumented points, a lease adversary, and an independent observer.
package clisim

import (
	"bytes"
	"context"
	"errors"
	"fmt"
	"os"
	"os/exec"
	"path/filepath"
	"strconv"
	"strings"
	"syscall"
	"time"

	"ariga.io/atlas/sql/migrate"

	"verif/sim/observe"
	"verif/sim/simkit"
)

// World is the durable world of one run: a machine (HOME, TMPDIR with the lease
// file), a target database file, a dev database file and a migration directory.
type World struct {
	R      *simkit.Run
	Root   string
	Bin    string
	DB     string // target database file
	DevDB  string // dev database file
	Mig    string // migration directory
	Tmp    string
	Home   string
	ncalls int
	// FK adds _fk=1 to the target's URL: the connection enforces foreign keys.
	FK bool
	// Clock is the simulated wall clock (unix seconds) the CLI names new files after (clock seam,
	// VERIF_NOW). It advances by one second per invocation, so that no two files share a version
	// unless a scenario holds it still on purpose (SameSecond).
	Clock      int64
	SameSecond bool
}

// SimEpoch is where the simulated clock starts: 2024-01-01 00:00:00 UTC.
const SimEpoch = 1704067200

// now returns the clock value of the next invocation and advances the clock.
func (w *World) now() string {
	if w.Clock == 0 {
		w.Clock = SimEpoch
	}
	if !w.SameSecond {
		w.Clock++
	}
	return fmt.Sprintf("VERIF_NOW=%d", w.Clock)
}

// NewWorld creates the world under the run's scratch directory.
func NewWorld(r *simkit.Run) *World {
	root := r.Env.Scratch
	if root == "" {
		simkit.Harnessf("clisim: no scratch directory")
	}
	if r.Env.AtlasBin == "" {
		simkit.Harnessf("clisim: no CLI binary")
	}
	w := &World{R: r, Root: root, Bin: r.Env.AtlasBin,
		DB: filepath.Join(root, "target.db"), DevDB: filepath.Join(root, "dev.db"),
		Mig: filepath.Join(root, "migrations"), Tmp: filepath.Join(root, "tmp"), Home: filepath.Join(root, "home")}
	for _, d := range []string{w.Mig, w.Tmp, w.Home} {
		if err := os.MkdirAll(d, 0o755); err != nil {
			simkit.Harnessf("mkdir: %v", err)
		}
	}
	return w
}

// URL returns the Atlas URL of the target database.
func (w *World) URL() string {
	if w.FK {
		return "sqlite://" + w.DB + "?_busy_timeout=100&_fk=1"
	}
	return "sqlite://" + w.DB + "?_busy_timeout=100"
}

// DevURL returns the Atlas URL of the dev database.
func (w *World) DevURL() string { return "sqlite://" + w.DevDB + "?_busy_timeout=100" }

// DirURL returns the URL of the migration directory.
func (w *World) DirURL() string { return "file://" + w.Mig }

// CmdResult is the outcome of one CLI invocation.
type CmdResult struct {
	Stdout, Stderr string
	Exit           int
	Killed         bool // died from SIGKILL (injected crash)
	Panicked       bool // Go runtime panic (exit 2 with a goroutine dump)
}

// Class is a short outcome class for the event log.
func (c CmdResult) Class() string {
	switch {
	case c.Killed:
		return "killed"
	case c.Panicked:
		return "panic"
	case c.Exit == 0:
		return "ok"
	}
	return fmt.Sprintf("exit%d", c.Exit)
}

// Atlas runs the CLI. extraEnv entries are VERIF_* settings.
func (w *World) Atlas(extraEnv []string, args ...string) CmdResult {
	w.ncalls++
	w.R.Step()
	ctx, cancel := context.WithTimeout(context.Background(), 120*time.Second)
	defer cancel()
	cmd := exec.CommandContext(ctx, w.Bin, args...)
	cmd.Dir = w.Root
	cmd.Env = append([]string{
		"ATLAS_NO_UPGRADE_SUGGESTIONS=1", "ATLAS_NO_UPDATE_NOTIFIER=1",
		"HOME=" + w.Home, "TMPDIR=" + w.Tmp, "PATH=/usr/bin:/bin", "NO_COLOR=1", w.now(),
	}, extraEnv...)
	var so, se bytes.Buffer
	cmd.Stdout, cmd.Stderr = &so, &se
	err := cmd.Run()
	res := CmdResult{Stdout: so.String(), Stderr: se.String()}
	if ctx.Err() != nil {
		simkit.Harnessf("watchdog timeout: atlas %v (stderr: %s)", args, firstN(se.String(), 400))
	}
	var ee *exec.ExitError
	switch {
	case err == nil:
	case errors.As(err, &ee):
		ws, _ := ee.Sys().(syscall.WaitStatus)
		if ws.Signaled() {
			if ws.Signal() == syscall.SIGKILL {
				res.Killed = true
			} else {
				simkit.Harnessf("died from signal %v: atlas %v", ws.Signal(), args)
			}
			res.Exit = 128 + int(ws.Signal())
		} else {
			res.Exit = ee.ExitCode()
		}
	default:
		simkit.Harnessf("atlas %v: %v", args, err)
	}
	if res.Exit == 2 && (strings.Contains(res.Stderr, "goroutine ") && strings.Contains(res.Stderr, "panic:")) {
		res.Panicked = true
	}
	return res
}

func firstN(s string, n int) string {
	if len(s) > n {
		return s[:n]
	}
	return s
}

// ErrLine extracts the CLI's error line.
func (c CmdResult) ErrLine() string {
	for _, l := range strings.Split(c.Stderr+"\n"+c.Stdout, "\n") {
		if strings.HasPrefix(l, "Error:") || strings.HasPrefix(l, "panic:") {
			return l
		}
	}
	return firstN(strings.TrimSpace(c.Stderr), 200)
}

// Seal writes atlas.sum for the directory with Atlas' own hashing code (what `migrate hash` does).
func (w *World) Seal() {
	d, err := migrate.NewLocalDir(w.Mig)
	if err != nil {
		simkit.Harnessf("seal: %v", err)
	}
	sum, err := d.Checksum()
	if err != nil {
		simkit.Harnessf("seal: %v", err)
	}
	if err := migrate.WriteSumFile(d, sum); err != nil {
		simkit.Harnessf("seal: %v", err)
	}
}

// WriteFile writes a file into the migration directory.
func (w *World) WriteFile(name, body string) {
	if err := os.WriteFile(filepath.Join(w.Mig, name), []byte(body), 0o644); err != nil {
		simkit.Harnessf("write %s: %v", name, err)
	}
}

// Observe dumps the target database through the independent observer.
func (w *World) Observe() *observe.Dump {
	d, err := observe.Read(w.DB)
	if err != nil {
		simkit.Harnessf("observe: %v", err)
	}
	return d
}

// ObserveDev dumps the dev database.
func (w *World) ObserveDev() *observe.Dump {
	d, err := observe.Read(w.DevDB)
	if err != nil {
		simkit.Harnessf("observe dev: %v", err)
	}
	return d
}

// leaseFiles returns the lock (lease) files left in the machine's TMPDIR.
func (w *World) leaseFiles() []string {
	m, _ := filepath.Glob(filepath.Join(w.Tmp, "*.lock"))
	return m
}

// LeaseLeft reports whether a lease file exists.
func (w *World) LeaseLeft() bool { return len(w.leaseFiles()) > 0 }

// leaseExpiry returns the latest expiry instant (unix seconds, rounded up) stamped in a left-over lease.
func (w *World) leaseExpiry() int64 {
	var exp int64
	for _, f := range w.leaseFiles() {
		b, err := os.ReadFile(f)
		if err != nil {
			simkit.Harnessf("read lease: %v", err)
		}
		ns, err := strconv.ParseInt(strings.TrimSpace(string(b)), 10, 64)
		if err != nil {
			simkit.Harnessf("lease stamp %q: %v", b, err)
		}
		if s := (ns + 999999999) / 1000000000; s > exp {
			exp = s
		}
	}
	return exp
}

// HoldLease makes every left-over lease valid at the next invocation: either the lease is as its
// dead holder left it and the simulated clock has not reached its expiry, or its stamp is far in
// the future.
func (w *World) HoldLease() {
	if w.Clock == 0 {
		w.Clock = SimEpoch
	}
	if exp := w.leaseExpiry(); exp > w.Clock+1 && exp-w.Clock < 3600 && w.R.T.Chance("lease-held-by-the-clock", 1, 2) {
		w.R.Probe("lease-held-by-the-clock")
		return
	}
	for _, f := range w.leaseFiles() {
		os.WriteFile(f, []byte("9000000000000000000"), 0o644)
	}
}

// ExpireLease makes every left-over lease expired at the next invocation: the simulated clock
// jumps to the expiry (the next invocation runs one second past it) or an hour past it, or the
// stamp is rewritten to the distant past.
func (w *World) ExpireLease() {
	if w.Clock == 0 {
		w.Clock = SimEpoch
	}
	exp := w.leaseExpiry()
	if exp == 0 {
		return
	}
	kind := w.R.T.Draw("lease-expiry-kind", 3)
	if exp-w.Clock >= 3600 {
		kind = 0 // a stamp an adversary wrote: no clock jump reaches it
	}
	switch kind {
	case 1:
		if exp > w.Clock {
			w.Clock = exp
		}
		w.R.Probe("lease-expired-by-the-clock/just-past")
	case 2:
		if exp+3600 > w.Clock {
			w.Clock = exp + 3600
		}
		w.R.Probe("lease-expired-by-the-clock/an-hour-past")
	default:
		for _, f := range w.leaseFiles() {
			os.WriteFile(f, []byte("1"), 0o644)
		}
		w.R.Probe("lease-expired-by-stamp")
	}
}

// DirSnapshot returns name -> content of the migration directory.
func (w *World) DirSnapshot() map[string]string {
	out := map[string]string{}
	es, err := os.ReadDir(w.Mig)
	if err != nil {
		simkit.Harnessf("readdir: %v", err)
	}
	for _, e := range es {
		b, err := os.ReadFile(filepath.Join(w.Mig, e.Name()))
		if err != nil {
			simkit.Harnessf("read: %v", err)
		}
		out[e.Name()] = string(b)
	}
	return out
}
