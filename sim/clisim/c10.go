package clisim

import (
	"encoding/json"
	"fmt"
	"os"
	"path/filepath"
	"strings"

	"verif/sim/observe"
	"verif/sim/simkit"
)

// CrashPoints are the instrumented instants (hooks under build tag verif).
var CrashPoints = []string{
	"apply:before-file", "exec:before-init-write", "exec:after-init-write",
	"exec:before-stmt", "exec:after-stmt", "exec:after-stmt-write",
	"exec:before-final-write", "exec:after-final-write",
	"apply:before-file-commit", "apply:after-file-commit",
	"apply:before-final-commit", "apply:after-final-commit",
}

// TxModes of migrate apply.
var TxModes = []string{"file", "all", "none"}

func pointLevel(p string) int {
	switch p {
	case "exec:before-stmt", "exec:after-stmt", "exec:after-stmt-write":
		return 0 // per statement
	case "apply:before-final-commit", "apply:after-final-commit":
		return 2 // per invocation
	}
	return 1 // per file
}

// c10state checks the invariants that hold at every observable instant.
type c10 struct {
	r          *simkit.Run
	w          *World
	files      []*MFile
	mode       string
	allowedDup map[string]int // per statement: at how many crashes it was the one in flight
	squashed   []*MFile       // files older than the checkpoint the directory starts from: never run
	outOfOrder bool           // one file arrives after its successors were applied (--exec-order non-linear)
}

const propC10 = "C10"

func (c *c10) lead(d *observe.Dump, f *MFile) (lead int, prefixOK bool) {
	prefixOK = true
	gap := false
	for _, s := range f.Stmts {
		if Effect(d, s) > 0 {
			if gap {
				prefixOK = false
			}
			if !gap {
				lead++
			}
		} else {
			gap = true
		}
	}
	return
}

func (c *c10) complete(d *observe.Dump, f *MFile) bool {
	lead, _ := c.lead(d, f)
	rev, ok := d.Rev(f.Version)
	return ok && lead == len(f.Stmts) && rev.Applied == rev.Total && rev.Total == len(f.Stmts)
}

func (c *c10) untouched(d *observe.Dump, f *MFile) bool {
	lead, _ := c.lead(d, f)
	_, ok := d.Rev(f.Version)
	return !ok && lead == 0
}

// check verifies the state invariants. target is the set of files the interrupted or
// finished invocation was asked to apply (for all-mode atomicity); afterCrash adds the
// in-flight bookkeeping for none mode.
func (c *c10) check(d *observe.Dump, when string, target []*MFile, afterCrash bool) {
	r := c.r
	sig := func(s string) string { return s + "/" + c.mode }
	for _, f := range c.squashed {
		if !c.untouched(d, f) {
			r.Fail(propC10, "checkpoint", sig("squashed-file-run"), "%s: %s is older than the checkpoint the first run started from, yet it has effects or a revision: effects %s revisions [%s]", when, f.Name, EffectVector(d, append(append([]*MFile(nil), c.squashed...), c.files...)), d.RevDigest())
			return
		}
	}
	for i, f := range c.files {
		lead, prefixOK := c.lead(d, f)
		rev, hasRev := d.Rev(f.Version)
		if !prefixOK {
			r.Fail(propC10, "order", sig("hole-in-file"), "%s: effects of %s are not a prefix: %s", when, f.Name, EffectVector(d, c.files))
			return
		}
		if hasRev && rev.Applied > lead {
			r.Fail(propC10, "never-ahead", sig("never-ahead"), "%s: revision %s records %d applied statements, only %d effects are in the database (%s)", when, f.Version, rev.Applied, lead, EffectVector(d, c.files))
			return
		}
		if hasRev && rev.Total != len(f.Stmts) {
			r.Fail(propC10, "never-ahead", sig("total-mismatch"), "%s: revision %s total=%d, file has %d statements", when, f.Version, rev.Total, len(f.Stmts))
			return
		}
		if (lead > 0 || hasRev) && i > 0 && !c.complete(d, c.files[i-1]) && !c.outOfOrder {
			r.Fail(propC10, "order", sig("file-before-predecessor"), "%s: %s has effects/revision but its predecessor is not complete: effects %s revisions [%s]", when, f.Name, EffectVector(d, c.files), d.RevDigest())
			return
		}
		em := c.mode
		if em != "all" {
			em = effective(c.mode, f)
		}
		switch em {
		case "file":
			if !c.complete(d, f) && !c.untouched(d, f) {
				r.Fail(propC10, "file-atomicity", sig("half-applied-file"), "%s: in file mode %s is neither fully applied nor absent: effects %s revisions [%s]", when, f.Name, EffectVector(d, c.files), d.RevDigest())
				return
			}
		case "none":
			if lead > 0 && !hasRev {
				r.Fail(propC10, "never-ahead", sig("effects-without-revision"), "%s: %s has effects but no revision row", when, f.Name)
				return
			}
			if hasRev && lead > rev.Applied+1 {
				r.Fail(propC10, "none-inflight", sig("more-than-one-unrecorded"), "%s: %s has %d effects but only %d recorded: more than the one statement in flight is unrecorded", when, f.Name, lead, rev.Applied)
				return
			}
			if afterCrash && hasRev && lead == rev.Applied+1 {
				c.allowedDup[f.Stmts[rev.Applied].ID]++
				r.Probe("crash-between-statement-and-bookkeeping")
			}
		}
		for _, s := range f.Stmts {
			n := Effect(d, s)
			// Each crash may repeat the one statement that was in flight at it (twice in a row if two
			// crashes hit the same statement), and only in files that run without a transaction.
			if n > 1+c.allowedDup[s.ID] || (n > 1 && em != "none") {
				r.Fail(propC10, "multiplicity", sig("statement-repeated"), "%s: statement %s took effect %d times (mode %s, in-flight statements at crashes: %v)", when, s.ID, n, c.mode, keys(c.allowedDup))
				return
			}
			if n >= 2 {
				r.Probe("statement-executed-twice-after-crash")
			}
			if n >= 3 {
				r.Probe("statement-in-flight-at-two-crashes")
			}
		}
	}
	if c.mode == "all" && len(target) > 0 {
		all, none := true, true
		for _, f := range target {
			if !c.complete(d, f) {
				all = false
			}
			if !c.untouched(d, f) {
				none = false
			}
		}
		if !all && !none {
			r.Fail(propC10, "all-atomicity", sig("partial-run"), "%s: in all mode the invocation's files are neither all applied nor all absent: effects %s revisions [%s]", when, EffectVector(d, c.files), d.RevDigest())
		}
	}
}

func keys(m map[string]int) []string {
	var out []string
	for k := range m {
		out = append(out, k)
	}
	// deterministic order
	for i := range out {
		for j := i + 1; j < len(out); j++ {
			if out[j] < out[i] {
				out[i], out[j] = out[j], out[i]
			}
		}
	}
	return out
}

// fstate is the durable state of one file: how many of its statements have taken effect (a
// prefix), what the revision records, and whether a revision row exists.
type fstate struct {
	lead, applied int
	rev           bool
}

// expectedAfterCrash replays the instrumented points of one `migrate apply` over the target
// files (DESIGN Appendix C) and returns the durable state of every file at the occ-th hit of
// point p: in none mode every effect and revision write is durable at once, in file mode at the
// file's commit, in all mode at the final commit. ok is false if the point is never reached.
func (c *c10) expectedAfterCrash(before *observe.Dump, target []*MFile, p string, occ int) (map[int]fstate, bool) {
	durable := map[int]fstate{}
	for _, f := range c.files {
		lead, _ := c.lead(before, f)
		st := fstate{lead: lead}
		if rev, ok := before.Rev(f.Version); ok {
			st.applied, st.rev = rev.Applied, true
		}
		durable[f.Idx] = st
	}
	cur := map[int]fstate{}
	for k, v := range durable {
		cur[k] = v
	}
	commit := func() {
		for k, v := range cur {
			durable[k] = v
		}
	}
	hits := map[string]int{}
	crashed := false
	at := func(name string) bool {
		if crashed {
			return true
		}
		hits[name]++
		if name == p && hits[name] == occ {
			crashed = true
		}
		return crashed
	}
	em := ""
	step := func() {
		if em == "none" {
			commit()
		}
	}
	for _, f := range target {
		em = c.mode
		if em != "all" {
			em = effective(c.mode, f)
		}
		st := cur[f.Idx]
		if at("apply:before-file") || at("exec:before-init-write") {
			break
		}
		st.rev = true
		cur[f.Idx] = st
		step()
		if at("exec:after-init-write") {
			break
		}
		for st.applied < len(f.Stmts) {
			if at("exec:before-stmt") {
				break
			}
			st.lead = st.applied + 1
			cur[f.Idx] = st
			step()
			if at("exec:after-stmt") {
				break
			}
			st.applied++
			cur[f.Idx] = st
			step()
			if at("exec:after-stmt-write") {
				break
			}
		}
		if crashed || at("exec:before-final-write") || at("exec:after-final-write") || at("apply:before-file-commit") {
			break
		}
		if em == "file" {
			commit()
		}
		if at("apply:after-file-commit") {
			break
		}
	}
	if !crashed && !at("apply:before-final-commit") {
		commit()
		at("apply:after-final-commit")
	}
	return durable, crashed
}

func (c *c10) pending(d *observe.Dump) []*MFile {
	var out []*MFile
	for _, f := range c.files {
		if rev, ok := d.Rev(f.Version); ok && rev.Applied == rev.Total {
			continue
		}
		out = append(out, f)
	}
	return out
}

// C10 — `migrate apply` is crash-consistent at every point, per transaction mode.
func C10(r *simkit.Run) {
	t := r.T
	w := NewWorld(r)
	cell := int(r.Env.RunIndex % uint64(len(CrashPoints)*len(TxModes)))
	mode := TxModes[cell%len(TxModes)]
	point := CrashPoints[cell/len(TxModes)]
	files := GenDir(t, 1, 4, 4, mode != "none" || t.Chance("ddl-in-none", 1, 2))
	// Per-file atlas:txmode directives override the global mode (not allowed under "all").
	if mode != "all" && t.Chance("use-directives", 1, 3) {
		for _, f := range files {
			switch t.Weighted("directive", 2, 1, 1) {
			case 1:
				f.TxMode = "none"
			case 2:
				f.TxMode = "file"
			}
			if f.TxMode != "" && f.TxMode != mode {
				r.Probe("directive-overrides-global-mode")
			}
		}
	}
	// Sometimes the directory starts from a checkpoint that squashes one or two older files: the
	// first run on the empty database starts at the checkpoint, and so does every resumed run.
	var squashed []*MFile
	if t.Chance("starts-from-checkpoint", 1, 4) {
		files[0].Checkpoint = true
		for i, n := 0, t.Range("squashed-files", 1, 2); i < n; i++ {
			idx := -(n - i)
			tag := fmt.Sprintf("p%d", i+1)
			f := &MFile{Idx: idx, Version: Version(idx), Name: fmt.Sprintf("%s_%s.sql", Version(idx), tag)}
			f.Stmts = append(f.Stmts, Stmt{ID: tag + ".s0", Kind: KDDL, SQL: fmt.Sprintf("CREATE TABLE IF NOT EXISTS %s (x int)", ddlTable(tag+".s0"))})
			f.Stmts = append(f.Stmts, Stmt{ID: tag + ".s1", Kind: KDDL, SQL: fmt.Sprintf("CREATE TABLE IF NOT EXISTS %s (x int)", ddlTable(tag+".s1"))})
			squashed = append(squashed, f)
		}
		r.Probe("directory-starts-from-checkpoint")
	}
	w.WriteDir(append(append([]*MFile(nil), squashed...), files...))
	c := &c10{r: r, w: w, files: files, mode: mode, allowedDup: map[string]int{}, squashed: squashed}
	r.Sample("mode=%s dir: %s", mode, Describe(append(append([]*MFile(nil), squashed...), files...)))
	r.Logf("mode=%s dir=%s", mode, Describe(append(append([]*MFile(nil), squashed...), files...)))
	apply := func(env []string, n int) CmdResult {
		args := []string{"migrate", "apply"}
		if n > 0 {
			args = append(args, fmt.Sprint(n))
		}
		args = append(args, "--dir", w.DirURL(), "--url", w.URL(), "--tx-mode", mode)
		if c.outOfOrder {
			args = append(args, "--exec-order", "non-linear")
		}
		return w.Atlas(env, args...)
	}
	// Sometimes one file arrives late: the others were applied by an earlier clean run, then a file
	// with an older version is added (a merged branch) and applied with --exec-order non-linear;
	// the crashes then fall into a file that is not the newest one of the history.
	if len(files) > 2 && len(squashed) == 0 && t.Chance("late-out-of-order-file", 1, 6) {
		j := 1 + t.Draw("late-file", len(files)-2)
		late := files[j]
		os.Remove(filepath.Join(w.Mig, late.Name))
		w.Seal()
		res := apply(nil, 0)
		if res.Exit != 0 {
			r.Fail(propC10, "liveness", "clean-apply-failed/"+mode, "clean `migrate apply` of the directory without the late file failed: %s", res.ErrLine())
			return
		}
		w.WriteFile(late.Name, late.Body())
		w.Seal()
		c.outOfOrder = true
		r.Probe("crash-inside-an-out-of-order-file")
		r.Sample("%s arrives after its successors were applied; --exec-order non-linear", late.Name)
		r.Logf("late file %s", late.Name)
	}
	// Optionally some files were applied by an earlier, clean invocation.
	if len(files) > 1 && !c.outOfOrder && t.Chance("earlier-apply", 1, 3) {
		n := t.Range("earlier-n", 1, len(files)-1)
		res := apply(nil, n)
		d := w.Observe()
		r.Logf("earlier apply %d -> %s effects=%s revs=[%s]", n, res.Class(), EffectVector(d, files), d.RevDigest())
		r.Sample("earlier clean `migrate apply %d` -> %s", n, res.Class())
		if res.Exit != 0 {
			r.Fail(propC10, "liveness", "clean-apply-failed/"+mode, "clean `migrate apply %d` failed: %s", n, res.ErrLine())
			return
		}
		c.check(d, "after earlier apply", files[:n], false)
	}
	crashes := 1
	if t.Chance("second-crash", 1, 3) {
		crashes = 2
	}
	for k := 0; k < crashes && !r.Failed(); k++ {
		before := w.Observe()
		pend := c.pending(before)
		if len(pend) == 0 {
			break
		}
		p := point
		if k > 0 {
			p = CrashPoints[t.Draw("second-point", len(CrashPoints))]
		}
		n := 0
		if t.Chance("count-arg", 1, 3) {
			n = t.Range("count", 1, len(pend))
		}
		target := pend
		if n > 0 {
			target = pend[:n]
		}
		max := 1
		switch pointLevel(p) {
		case 0:
			max = 0
			for i, f := range target {
				st := len(f.Stmts)
				if rev, ok := before.Rev(f.Version); ok && i == 0 {
					st -= rev.Applied
				}
				max += st
			}
		case 1:
			max = len(target)
		}
		if max < 1 {
			max = 1
		}
		occ := 1 + t.Draw("occurrence", max)
		res := apply([]string{fmt.Sprintf("VERIF_CRASH_AT=%s:%d", p, occ)}, n)
		d := w.Observe()
		r.Logf("crash@%s#%d apply n=%d -> %s effects=%s revs=[%s]", p, occ, n, res.Class(), EffectVector(d, files), d.RevDigest())
		r.Sample("`migrate apply%s --tx-mode %s` with crash at %s (hit %d) -> %s; effects %s revisions [%s]", countArg(n), mode, p, occ, res.Class(), EffectVector(d, files), d.RevDigest())
		if res.Panicked {
			r.Fail(propC10, "panic", "panic/"+mode, "migrate apply panicked: %s", res.ErrLine())
			return
		}
		if !res.Killed {
			// The point was not reached: this was a clean invocation.
			r.Probe("crash-point-not-reached")
			if res.Exit != 0 {
				r.Fail(propC10, "liveness", "clean-apply-failed/"+mode, "`migrate apply` without a reached crash point failed: %s", res.ErrLine())
				return
			}
			c.check(d, "after un-crashed apply", target, false)
			continue
		}
		r.Fired("crash")
		r.Fired("crash@" + p)
		r.Probe("cell:" + mode + ":" + p)
		c.check(d, fmt.Sprintf("after crash at %s#%d", p, occ), target, true)
		if r.Failed() {
			return
		}
		// Exact durable state for this crash point (Appendix C).
		if exp, reached := c.expectedAfterCrash(before, target, p, occ); reached {
			for _, f := range files {
				lead, _ := c.lead(d, f)
				got := fstate{lead: lead}
				if rev, ok := d.Rev(f.Version); ok {
					got.applied, got.rev = rev.Applied, true
				}
				if got != exp[f.Idx] {
					r.Fail(propC10, "crash-state", fmt.Sprintf("crash-state/%s/%s", mode, p), "after a crash at %s (hit %d) in %s mode, %s should have %d statements in effect and a revision=%v recording %d; observed %d in effect, revision=%v recording %d (effects %s revisions [%s])", p, occ, mode, f.Name, exp[f.Idx].lead, exp[f.Idx].rev, exp[f.Idx].applied, got.lead, got.rev, got.applied, EffectVector(d, files), d.RevDigest())
					return
				}
			}
			r.Probe("crash-state-compared")
		} else {
			simkit.Harnessf("crash at %s#%d was observed but the point model never reaches it", p, occ)
		}
		// Restart model.
		if !w.LeaseLeft() {
			r.Fail(propC10, "harness-expectation", "no-lease-after-crash", "no lease file after a crash inside migrate apply")
			return
		}
		r.Probe("lease-left-after-crash")
		if t.Chance("restart-while-lease-held", 1, 3) {
			w.HoldLease()
			res := apply(nil, 0)
			d2 := w.Observe()
			r.Fired("restart-with-lease-held")
			r.Logf("restart with lease held -> %s same=%v", res.Class(), d2.Digest() == d.Digest())
			r.Sample("restart while the lease is still held -> %s (%s)", res.Class(), res.ErrLine())
			if res.Exit == 0 || res.Killed || res.Panicked || !strings.Contains(res.Stderr+res.Stdout, "lock") {
				r.Fail(propC10, "lease", "restart-ignored-lease/"+mode, "restart while the lease is held did not fail with a lock error: %s / %s", res.Class(), res.ErrLine())
				return
			}
			if d2.Digest() != d.Digest() {
				r.Fail(propC10, "lease", "locked-restart-changed-state/"+mode, "restart refused for the lock changed the database: before [%s] after [%s]", d.RevDigest(), d2.RevDigest())
				return
			}
		}
		w.ExpireLease()
		r.Fired("lease-expired")
	}
	if r.Failed() {
		return
	}
	// Faults stop: one clean apply completes the migration.
	res := apply(nil, 0)
	d := w.Observe()
	r.Logf("clean apply -> %s effects=%s revs=[%s]", res.Class(), EffectVector(d, files), d.RevDigest())
	r.Sample("clean `migrate apply` -> %s; effects %s revisions [%s]", res.Class(), EffectVector(d, files), d.RevDigest())
	if res.Exit != 0 || res.Killed {
		r.Fail(propC10, "liveness", "rerun-does-not-complete/"+mode, "after the last crash a clean `migrate apply --tx-mode %s` does not complete: %s %s", mode, res.Class(), res.ErrLine())
		return
	}
	c.check(d, "at completion", nil, false)
	if r.Failed() {
		return
	}
	for _, f := range files {
		if !c.complete(d, f) {
			r.Fail(propC10, "liveness", "incomplete-at-end/"+mode, "at completion %s is not complete: effects %s revisions [%s]", f.Name, EffectVector(d, files), d.RevDigest())
			return
		}
		if rev, _ := d.Rev(f.Version); rev.Error != "" {
			r.Fail(propC10, "liveness", "error-left-at-end/"+mode, "at completion revision %s still carries an error", f.Version)
			return
		}
	}
	st := w.Atlas(nil, "migrate", "status", "--dir", w.DirURL(), "--url", w.URL(), "--format", "{{ json . }}")
	var status struct {
		Status  string
		Pending []any
	}
	if st.Exit != 0 || json.Unmarshal([]byte(st.Stdout), &status) != nil {
		r.Fail(propC10, "liveness", "status-failed/"+mode, "migrate status failed: %s %s", st.Class(), st.ErrLine())
		return
	}
	r.Logf("status=%s", status.Status)
	if status.Status != "OK" {
		r.Fail(propC10, "liveness", "status-not-ok/"+mode, "migrate status reports %q after completion", status.Status)
	}
}

func countArg(n int) string {
	if n > 0 {
		return fmt.Sprintf(" %d", n)
	}
	return ""
}
