package clisim

import (
	"fmt"
	"strings"

	"verif/sim/simkit"
)

const propC12 = "C12"

// C12CLI — resuming a partially applied, edited file through the real CLI (--tx-mode none).
func C12CLI(r *simkit.Run) {
	t := r.T
	w := NewWorld(r)
	var files []*MFile
	if t.Chance("predecessor", 1, 3) {
		f := &MFile{Idx: 1, Version: Version(1), Name: Version(1) + "_f1.sql"}
		f.Stmts = []Stmt{{ID: "f1.s0", Kind: KDDL, SQL: journalDDL}, MkStmt("f1", 1, KInsert)}
		files = append(files, f)
	}
	n := t.Range("victim-stmts", 2, 5)
	v := &MFile{Idx: 2, Version: Version(2), Name: Version(2) + "_f2.sql"}
	v.Stmts = []Stmt{{ID: "f2.s0", Kind: KDDL, SQL: journalDDL}}
	for k := 1; k < n; k++ {
		st := MkStmt("f2", k, KInsert)
		// The inserted row also records the length of a text with a blank in it, so that an edit of
		// nothing but white space inside the literal is a different statement.
		st.SQL = strings.Replace(st.SQL, "(id) VALUES ('"+st.ID+"')", "(id, n) VALUES ('"+st.ID+"', length('a b'))", 1)
		v.Stmts = append(v.Stmts, st)
	}
	// Sometimes the file also creates a trigger: one statement with semicolons of its own
	// (BEGIN ... END), which only the SQLite driver's statement scanner keeps in one piece.
	if t.Chance("victim-creates-a-trigger", 1, 3) {
		trg := Stmt{ID: "f2.trg", Kind: KDDL, SQL: "CREATE TRIGGER IF NOT EXISTS trg_f2 AFTER INSERT ON journal BEGIN SELECT 1; END"}
		v.Stmts = append([]Stmt{v.Stmts[0], trg}, v.Stmts[1:]...)
		n++
		r.Probe("victim-creates-a-trigger")
	}
	k := 1 + t.Draw("fail-at", n-1) // statement k fails: k statements are recorded as applied
	good := v.Stmts[k]
	// The partial state comes from a failing statement (the revision then carries its error text)
	// or from a process that is killed right after the bookkeeping write of statement k-1 (the
	// revision is partial and says nothing about an error).
	killed := t.Chance("partial-by-killed-process", 1, 3)
	if !killed {
		v.Stmts[k] = MkStmt("f2", k, KBad)
	}
	files = append(files, v)
	if t.Chance("successor", 1, 3) {
		f := &MFile{Idx: 3, Version: Version(3), Name: Version(3) + "_f3.sql"}
		f.Stmts = []Stmt{MkStmt("f3", 0, KInsert)}
		files = append(files, f)
	}
	w.WriteDir(files)
	apply := func() CmdResult {
		return w.Atlas(nil, "migrate", "apply", "--dir", w.DirURL(), "--url", w.URL(), "--tx-mode", "none")
	}
	var res CmdResult
	if killed {
		pre := 0
		if len(files) > 0 && files[0] != v {
			pre = len(files[0].Stmts)
		}
		res = w.Atlas([]string{fmt.Sprintf("VERIF_CRASH_AT=exec:after-stmt-write:%d", pre+k)}, "migrate", "apply", "--dir", w.DirURL(), "--url", w.URL(), "--tx-mode", "none")
		w.ExpireLease()
	} else {
		res = apply()
	}
	d := w.Observe()
	rev, ok := d.Rev(v.Version)
	r.Logf("partial apply killed=%v -> %s revs=[%s]", killed, res.Class(), d.RevDigest())
	if killed {
		r.Sample("%d-statement file, the process is killed after the bookkeeping write of statement %d in --tx-mode none -> %s; history [%s]", n, k-1, res.Class(), d.RevDigest())
		r.Fired("process-killed-mid-file")
		if !res.Killed || !ok || rev.Applied != k || rev.Error != "" {
			r.Fail(propC12, "setup", "partial-state-not-produced", "expected a partial revision %d/%d without error text after the kill, got [%s] (%s)", k, n, d.RevDigest(), res.Class())
			return
		}
		r.Probe("partial-revision-without-error-text")
	} else {
		r.Sample("%d-statement file, statement %d fails in --tx-mode none -> %s; history [%s]", n, k, res.Class(), d.RevDigest())
		r.Fired("stmt-failure")
		if res.Panicked || res.Exit == 0 || !ok || rev.Applied != k {
			r.Fail(propC12, "setup", "partial-state-not-produced", "expected a partial revision %d/%d, got [%s] (%s)", k, n, d.RevDigest(), res.ErrLine())
			return
		}
	}
	// Edit.
	old := v.Stmts
	fresh := 100
	mk := func() Stmt { fresh++; return MkStmt("f2", fresh, KInsert) }
	kinds := []string{"fix-only", "change", "insert", "delete", "swap", "truncate", "append", "respace-literal"}
	kind := kinds[t.Draw("edit-kind", len(kinds))]
	nw := append([]Stmt(nil), old...)
	nw[k] = good // the failing statement is always repaired
	at := 0
	switch kind {
	case "change":
		at = t.Draw("edit-at", len(nw))
		nw[at] = mk()
	case "insert":
		at = t.Draw("edit-at", len(nw)+1)
		nw = append(nw[:at], append([]Stmt{mk()}, nw[at:]...)...)
	case "delete":
		at = t.Draw("edit-at", len(nw))
		nw = append(nw[:at], nw[at+1:]...)
	case "swap":
		at = t.Draw("edit-at", len(nw)-1)
		nw[at], nw[at+1] = nw[at+1], nw[at]
	case "truncate":
		at = t.Draw("edit-at", len(nw))
		nw = nw[:at]
	case "append":
		at = len(nw)
		nw = append(nw, mk())
	case "respace-literal":
		var cand []int
		for i, st := range nw {
			if strings.Contains(st.SQL, "length('a b')") {
				cand = append(cand, i)
			}
		}
		if len(cand) == 0 {
			kind = "fix-only"
			break
		}
		at = cand[t.Draw("edit-at", len(cand))]
		nw[at].SQL = strings.Replace(nw[at].SQL, "length('a b')", "length('a  b')", 1)
	}
	touches := len(nw) < k
	for i := 0; i < k && i < len(nw); i++ {
		if nw[i].SQL != old[i].SQL {
			touches = true
		}
	}
	v.Stmts = nw
	w.WriteFile(v.Name, v.Body())
	if hr := w.Atlas(nil, "migrate", "hash", "--dir", w.DirURL()); hr.Exit != 0 {
		r.Fail(propC12, "setup", "migrate-hash-failed", "migrate hash failed: %s", hr.ErrLine())
		return
	}
	where, lenChange := "tail-only", "same-length"
	if touches {
		where = "touches-applied"
		r.Probe("edit-touches-applied-part")
		if len(nw) < k {
			r.Probe("fewer-statements-than-applied")
		}
	} else {
		r.Probe("edit-of-unapplied-tail")
	}
	switch {
	case len(nw) > len(old):
		lenChange = "longer"
	case len(nw) < len(old):
		lenChange = "shorter"
	}
	if !touches && lenChange != "same-length" {
		r.Probe("tail-edit-changes-length")
	}
	var ids []string
	for _, s := range nw {
		ids = append(ids, s.ID)
	}
	r.Logf("edit %s at %d (%s,%s) -> %v", kind, at, where, lenChange, ids)
	r.Sample("edit: %s at %d (%s, %s) -> statements %v; `migrate hash`", kind, at, where, lenChange, ids)
	before := w.Observe()
	// A dry run first, sometimes: it takes the same decision (and changes nothing).
	if t.Chance("dry-run-first", 1, 3) {
		dr := w.Atlas(nil, "migrate", "apply", "--dir", w.DirURL(), "--url", w.URL(), "--tx-mode", "none", "--dry-run")
		r.Logf("dry run after edit -> %s", dr.Class())
		r.Fired("dry-run-of-the-resumed-file")
		switch {
		case dr.Panicked:
			r.Fail(propC12, "no-crash", "panic/dry-run", "migrate apply --dry-run crashed with a Go panic on the edited file: %s", dr.ErrLine())
			return
		case !touches && (dr.Exit != 0 || strings.Contains(dr.Stderr+dr.Stdout, "history changed")):
			r.Fail(propC12, "resume", "dry-run-refuses-a-resumable-file", "the applied statements of the file are unchanged (%s at %d, applied=%d), yet `migrate apply --dry-run` -> %s: %s", kind, at, k, dr.Class(), dr.ErrLine())
			return
		case touches && dr.Exit == 0:
			r.Fail(propC12, "refuse", "not-refused/dry-run/"+kind, "applied part changed (%s at %d, applied=%d) but migrate apply --dry-run -> ok", kind, at, k)
			return
		}
		if mid := w.Observe(); mid.Digest() != before.Digest() {
			r.Fail(propC12, "refuse-clean", "dry-run-changed-the-database", "migrate apply --dry-run on the edited file changed the database: [%s] -> [%s]", before.RevDigest(), mid.RevDigest())
			return
		}
	}
	res = apply()
	after := w.Observe()
	r.Logf("apply after edit -> %s effects=%s revs=[%s]", res.Class(), EffectVector(after, files), after.RevDigest())
	r.Sample("`migrate apply --tx-mode none` -> %s (%s); effects %s history [%s]", res.Class(), res.ErrLine(), EffectVector(after, files), after.RevDigest())
	r.Nontrivial()
	if res.Panicked {
		r.Fail(propC12, "no-crash", fmt.Sprintf("panic/%s/%s", where, lenChange), "migrate apply crashed with a Go panic when resuming the edited file (%s at %d, applied=%d, new length %d): %s", kind, at, k, len(nw), res.ErrLine())
		return
	}
	if touches {
		if res.Exit == 0 || !strings.Contains(res.Stderr+res.Stdout, "history changed") {
			r.Fail(propC12, "refuse", "not-refused/"+kind, "applied part changed (%s at %d, applied=%d) but migrate apply -> %s: %s", kind, at, k, res.Class(), res.ErrLine())
			return
		}
		if after.UserDigest() != before.UserDigest() {
			r.Fail(propC12, "refuse-clean", "executed-after-refusal", "history-changed was reported but the database content changed")
			return
		}
		if after.RevFull() != before.RevFull() {
			r.Fail(propC12, "refuse-clean", "history-modified-on-refusal", "history-changed was reported but the revision table changed:\n%s\n->\n%s", before.RevFull(), after.RevFull())
		} else if moved := after.Restamped(before); len(moved) > 0 {
			r.Fail(propC12, "refuse-clean", "history-restamped-on-refusal", "history-changed was reported but the refused run rewrote executed_at / operator_version of revision %v", moved)
		}
		return
	}
	// Tail only: resumed with the new tail, every new statement exactly once, revision complete.
	if res.Exit != 0 {
		r.Fail(propC12, "resume", fmt.Sprintf("resume/%s/%s", kind, lenChange), "only the un-applied tail was edited but migrate apply failed: %s", res.ErrLine())
		return
	}
	for i, s := range nw {
		if s.Kind == KInsert && Effect(after, s) != 1 {
			r.Fail(propC12, "resume", fmt.Sprintf("resume/%s/%s", kind, lenChange), "after resuming, statement %d (%s) took effect %d times; effects %s", i, s.ID, Effect(after, s), EffectVector(after, files))
			return
		}
	}
	for _, s := range old[k+1:] {
		still := false
		for _, x := range nw {
			if x.ID == s.ID {
				still = true
			}
		}
		if !still && s.Kind == KInsert && Effect(after, s) != 0 {
			r.Fail(propC12, "resume", "removed-statement-executed", "statement %s was removed from the tail but executed", s.ID)
			return
		}
	}
	rv, _ := after.Rev(v.Version)
	if rv.Applied != len(nw) || rv.Total != len(nw) || rv.Error != "" {
		r.Fail(propC12, "resume-complete", "resume-incomplete/"+lenChange, "after resuming with the new tail the revision is [%s]; the file has %d statements", rv, len(nw))
		return
	}
	res = apply()
	d3 := w.Observe()
	r.Logf("next apply -> %s same=%v", res.Class(), d3.Digest() == after.Digest())
	if res.Panicked {
		r.Fail(propC12, "no-crash", "panic-after-resume/"+lenChange, "migrate apply panicked on the run after a successful resume: %s", res.ErrLine())
		return
	}
	if res.Exit != 0 || d3.Digest() != after.Digest() {
		r.Fail(propC12, "resume-complete", "not-quiescent-after-resume/"+lenChange, "the run after a successful resume -> %s and changed the database=%v", res.Class(), d3.Digest() != after.Digest())
	}
}
