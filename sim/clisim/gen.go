package clisim

import (
	"fmt"
	"strings"

	"verif/sim/observe"
	"verif/sim/simkit"
)

// Statement kinds.
const (
	KInsert = iota // INSERT INTO journal: a second execution is visible as a count of 2
	KDDL           // CREATE TABLE IF NOT EXISTS t_<id>: real DDL, transactional in SQLite
	KBad           // fails at execution time
)

// Stmt is a generated, self-journalling statement.
type Stmt struct {
	ID   string
	Kind int
	SQL  string
}

// MFile is a generated migration file.
type MFile struct {
	Idx     int
	Version string
	Name    string
	TxMode  string // "" | none | file: the atlas:txmode directive
	// Checkpoint marks the file with the atlas:checkpoint directive: a first run on an empty
	// database starts from it and never runs the files before it.
	Checkpoint bool
	Stmts      []Stmt
}

// Version returns the fixed-width version of file index i.
func Version(i int) string { return fmt.Sprintf("%014d", 20240101000000+i) }

const journalDDL = "CREATE TABLE IF NOT EXISTS journal (id text, n int DEFAULT 0)"

// MkStmt builds statement k of file tag.
func MkStmt(tag string, k, kind int) Stmt {
	id := fmt.Sprintf("%s.s%d", tag, k)
	switch kind {
	case KDDL:
		return Stmt{ID: id, Kind: KDDL, SQL: fmt.Sprintf("CREATE TABLE IF NOT EXISTS %s (x int)", ddlTable(id))}
	case KBad:
		return Stmt{ID: id, Kind: KBad, SQL: fmt.Sprintf("INSERT INTO no_such_table (id) VALUES ('%s')", id)}
	}
	return Stmt{ID: id, Kind: KInsert, SQL: fmt.Sprintf("INSERT INTO journal (id) VALUES ('%s')", id)}
}

func ddlTable(id string) string { return "t_" + strings.NewReplacer(".", "_").Replace(id) }

// Body renders the file.
func (f *MFile) Body() string {
	var b strings.Builder
	if f.TxMode != "" {
		fmt.Fprintf(&b, "-- atlas:txmode %s\n", f.TxMode)
	}
	if f.Checkpoint {
		b.WriteString("-- atlas:checkpoint\n")
	}
	if f.TxMode != "" || f.Checkpoint {
		b.WriteString("\n")
	}
	for _, s := range f.Stmts {
		b.WriteString(s.SQL)
		b.WriteString(";\n")
	}
	return b.String()
}

// GenDir draws a directory: nFiles files with 1..maxStmts statements. The first
// statement of the first file creates the journal table (idempotent DDL).
func GenDir(t *simkit.Tape, minFiles, maxFiles, maxStmts int, ddl bool) []*MFile {
	n := t.Range("files", minFiles, maxFiles)
	var files []*MFile
	for i := 1; i <= n; i++ {
		tag := fmt.Sprintf("f%d", i)
		f := &MFile{Idx: i, Version: Version(i), Name: fmt.Sprintf("%s_%s.sql", Version(i), tag)}
		ns := t.Range("stmts", 1, maxStmts)
		for k := 0; k < ns; k++ {
			if i == 1 && k == 0 {
				f.Stmts = append(f.Stmts, Stmt{ID: tag + ".s0", Kind: KDDL, SQL: journalDDL})
				continue
			}
			kind := KInsert
			if ddl && t.Chance("ddl-stmt", 1, 5) {
				kind = KDDL
			}
			f.Stmts = append(f.Stmts, MkStmt(tag, k, kind))
		}
		files = append(files, f)
	}
	return files
}

// Describe renders the directory shape.
func Describe(files []*MFile) string {
	var parts []string
	for _, f := range files {
		var ks []string
		for _, s := range f.Stmts {
			ks = append(ks, [...]string{"i", "d", "X"}[s.Kind])
		}
		tm := ""
		if f.TxMode != "" {
			tm = "[txmode " + f.TxMode + "]"
		}
		if f.Checkpoint {
			tm += "[checkpoint]"
		}
		parts = append(parts, fmt.Sprintf("f%d%s(%s)", f.Idx, tm, strings.Join(ks, "")))
	}
	return strings.Join(parts, " ")
}

// Effect returns how many times the statement's effect is present in the dump
// (inserts: row count; DDL: 0 or 1).
func Effect(d *observe.Dump, s Stmt) int {
	switch s.Kind {
	case KDDL:
		name := ddlTable(s.ID)
		if s.SQL == journalDDL {
			name = "journal"
		}
		if d.HasTable(name) {
			return 1
		}
		return 0
	case KBad:
		return 0
	}
	return d.Count("journal", func(r string) bool { return strings.HasPrefix(r, "'"+s.ID+"'|") })
}

// EffectVector renders presence counts per file, e.g. "f1:11 f2:10".
func EffectVector(d *observe.Dump, files []*MFile) string {
	var parts []string
	for _, f := range files {
		var b strings.Builder
		for _, s := range f.Stmts {
			fmt.Fprintf(&b, "%d", Effect(d, s))
		}
		parts = append(parts, fmt.Sprintf("f%d:%s", f.Idx, b.String()))
	}
	return strings.Join(parts, " ")
}

// WriteDir writes the files and seals the directory.
func (w *World) WriteDir(files []*MFile) {
	for _, f := range files {
		w.WriteFile(f.Name, f.Body())
	}
	w.Seal()
}
