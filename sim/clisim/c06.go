package clisim

import (
	"bytes"
	"fmt"
	"os"
	"path/filepath"
	"sort"
	"strings"

	"verif/sim/execsim"
	"verif/sim/simkit"
)

const propC06 = "C06"

func readDirBytes(path string) map[string][]byte {
	out := map[string][]byte{}
	es, err := os.ReadDir(path)
	if err != nil {
		simkit.Harnessf("readdir: %v", err)
	}
	for _, e := range es {
		if e.IsDir() {
			continue
		}
		b, err := os.ReadFile(filepath.Join(path, e.Name()))
		if err != nil {
			simkit.Harnessf("read: %v", err)
		}
		out[e.Name()] = b
	}
	return out
}

func sqlFiles(m map[string][]byte) []string {
	var out []string
	for n := range m {
		if strings.HasSuffix(n, ".sql") {
			out = append(out, n)
		}
	}
	sort.Strings(out)
	return out
}

// importSource writes a third-party-format directory with n files and returns its URL.
func importSource(dir, format string, n int, unpadded, repeatable bool) string {
	os.MkdirAll(dir, 0o755)
	// Unpadded versions that reach 10: the source tool's order (1, 2, 10) is not the
	// lexicographic order of the generated names.
	versions := []int{1, 2, 3}
	if unpadded {
		versions = []int{1, 2, 10}
	}
	if repeatable && format == "flyway" {
		os.WriteFile(filepath.Join(dir, "R__views.sql"), []byte("CREATE TABLE imp_repeatable (id int);\n"), 0o644)
	}
	for k := 0; k < n; k++ {
		i := versions[k]
		up := fmt.Sprintf("CREATE TABLE imp%d (id int);\nINSERT INTO imp%d VALUES (%d);\n", i, i, i)
		down := fmt.Sprintf("DROP TABLE imp%d;\n", i)
		switch format {
		case "goose":
			os.WriteFile(filepath.Join(dir, fmt.Sprintf("%05d_s%d.sql", i, i)), []byte("-- +goose Up\n"+up+"\n-- +goose Down\n"+down), 0o644)
		case "dbmate":
			os.WriteFile(filepath.Join(dir, fmt.Sprintf("202401010000%02d_s%d.sql", i, i)), []byte("-- migrate:up\n"+up+"\n-- migrate:down\n"+down), 0o644)
		case "golang-migrate":
			os.WriteFile(filepath.Join(dir, fmt.Sprintf("%d_s%d.up.sql", i, i)), []byte(up), 0o644)
			os.WriteFile(filepath.Join(dir, fmt.Sprintf("%d_s%d.down.sql", i, i)), []byte(down), 0o644)
		case "flyway":
			os.WriteFile(filepath.Join(dir, fmt.Sprintf("V%d__s%d.sql", i, i)), []byte(up), 0o644)
			os.WriteFile(filepath.Join(dir, fmt.Sprintf("U%d__s%d.sql", i, i)), []byte(down), 0o644)
		case "liquibase":
			os.WriteFile(filepath.Join(dir, fmt.Sprintf("%d_s%d.sql", i, i)), []byte(fmt.Sprintf("--liquibase formatted sql\n--changeset atlas:%d-0\n%s--rollback: %s", i, up, down)), 0o644)
		case "atlas":
			os.WriteFile(filepath.Join(dir, fmt.Sprintf("202401010000%02d_s%d.sql", i, i)), []byte(up), 0o644)
		}
	}
	return "file://" + dir + "?format=" + format
}

// ImportFormats are the source formats of `migrate import`.
var ImportFormats = []string{"goose", "dbmate", "golang-migrate", "flyway", "liquibase"}

// C06CLI — CLI writers leave the directory valid; `migrate validate` / `migrate apply`
// fail exactly when the directory was tampered with.
func C06CLI(r *simkit.Run) {
	t := r.T
	w := NewWorld(r)
	alias := map[string]string{}
	nameOf := func(n string) string {
		if a, ok := alias[n]; ok {
			return a
		}
		a := fmt.Sprintf("file#%d", len(alias)+1)
		alias[n] = a
		return a
	}
	register := func() {
		for _, n := range sqlFiles(readDirBytes(w.Mig)) {
			nameOf(n)
		}
	}
	validate := func() CmdResult {
		return w.Atlas(nil, "migrate", "validate", "--dir", w.DirURL())
	}
	// Another name for the same directory (see the schema-state consumer below).
	if err := os.Symlink(w.Mig, filepath.Join(w.Root, "mdir")); err != nil {
		simkit.Harnessf("symlink: %v", err)
	}
	// Optionally the directory starts as an import from a third-party tool.
	if t.Chance("start-from-import", 1, 3) {
		format := ImportFormats[t.Draw("import-format", len(ImportFormats))]
		unpadded, repeatable := t.Chance("unpadded-versions", 1, 2), t.Chance("repeatable-migration", 1, 2)
		src := importSource(filepath.Join(w.Root, "src"), format, t.Range("import-files", 1, 3), unpadded, repeatable)
		if unpadded {
			r.Probe("import-unpadded-versions")
		}
		if repeatable && format == "flyway" {
			r.Probe("import-flyway-repeatable")
		}
		res := w.Atlas(nil, "migrate", "import", "--from", src, "--to", w.DirURL())
		r.Logf("import %s -> %s", format, res.Class())
		r.Sample("`migrate import` from a %s directory -> %s", format, res.Class())
		r.Fired("writer/import-" + format)
		if res.Exit != 0 {
			r.Fail(propC06, "writer-leaves-valid", "import-failed/"+format, "migrate import (%s) failed: %s", format, res.ErrLine())
			return
		}
		register()
	}
	desiredTables := 0
	schemaPath := filepath.Join(w.Root, "schema.hcl")
	next := 0
	valid := true
	check := func(step string, writerOK, must bool) {
		res := validate()
		m := readDirBytes(w.Mig)
		rv, rok := execsim.RefValid(m)
		now := res.Exit == 0
		r.Logf("%s -> validate=%s files=%d ref=%v/%v", step, res.Class(), len(sqlFiles(m)), rv, rok)
		switch {
		case res.Panicked:
			r.Fail(propC06, "no-crash", "validate-panic", "%s: migrate validate panicked: %s", step, res.ErrLine())
		case !now && !strings.Contains(res.Stderr+res.Stdout, "checksum"):
			r.Fail(propC06, "error-class", "non-checksum-error", "%s: migrate validate failed without a checksum error: %s", step, res.ErrLine())
		case rok && rv != now:
			which := "false-valid"
			if rv {
				which = "false-invalid"
			}
			r.Fail(propC06, "integrity", which+"/cli", "%s: `migrate validate` exit=%d, the reference sum says valid=%v (%s)", step, res.Exit, rv, res.ErrLine())
		case writerOK && !now:
			r.Fail(propC06, "writer-leaves-valid", "writer-left-invalid/"+strings.Fields(step)[0], "%s succeeded but `migrate validate` fails: %s", step, res.ErrLine())
		case must && valid && now:
			r.Fail(propC06, "integrity", "tamper-undetected/"+strings.Fields(step)[0], "%s on a valid directory was not detected by `migrate validate`", step)
		}
		if must && valid {
			r.Probe("tamper-on-valid-directory")
		}
		valid = now
		// A directory can also be named as the *state* of a schema command, by a relative URL and under
		// any name (here a link called mdir): it is replayed on the dev database, and it is validated
		// first like everywhere else.
		// (Without a sum file such a directory is, by design, a directory of schema files and not a
		// migration directory: nothing to validate then.)
		_, sumErr := os.Stat(filepath.Join(w.Mig, "atlas.sum"))
		if !r.Failed() && sumErr == nil && t.Chance("also-as-schema-state", 1, 4) {
			sd := w.Atlas(nil, "schema", "diff", "--from", "file://mdir", "--to", "file://mdir", "--dev-url", w.DevURL())
			r.Logf("  schema diff from/to the directory -> %s", sd.Class())
			r.Fired("consumer/schema-state")
			out := sd.Stderr + sd.Stdout
			if sd.Panicked {
				r.Fail(propC06, "no-crash", "schema-state-panic", "%s: schema diff panicked: %s", step, sd.ErrLine())
			} else if !now && sd.Exit == 0 { // (a refusal for another reason, e.g. "no SQL files", is a refusal)
				r.Fail(propC06, "integrity", "schema-command-accepts-tampered-dir", "%s: `migrate validate` rejects the directory but `schema diff --from file://mdir --to file://mdir` -> %s: %s", step, sd.Class(), sd.ErrLine())
			} else if now && sd.Exit != 0 && strings.Contains(out, "checksum") {
				r.Fail(propC06, "integrity", "schema-command-rejects-valid-dir", "%s: the directory validates but `schema diff` with it as state reports a checksum error: %s", step, sd.ErrLine())
			}
		}
		// `migrate apply` refuses a tampered directory (dry-run: the target stays untouched).
		if !r.Failed() && t.Chance("also-apply", 1, 3) {
			ap := w.Atlas(nil, "migrate", "apply", "--dir", w.DirURL(), "--url", w.URL(), "--dry-run")
			r.Logf("  apply --dry-run -> %s", ap.Class())
			r.Fired("consumer/apply")
			if ap.Panicked {
				r.Fail(propC06, "no-crash", "apply-panic", "%s: migrate apply panicked: %s", step, ap.ErrLine())
			} else if !now && (ap.Exit == 0 || !strings.Contains(ap.Stderr+ap.Stdout, "checksum")) {
				r.Fail(propC06, "integrity", "apply-accepts-tampered-dir", "%s: `migrate validate` rejects the directory but `migrate apply` -> %s: %s", step, ap.Class(), ap.ErrLine())
			} else if now && ap.Exit != 0 && strings.Contains(ap.Stderr+ap.Stdout, "checksum") {
				r.Fail(propC06, "integrity", "apply-rejects-valid-dir", "%s: the directory validates but `migrate apply` reports a checksum error", step)
			}
		}
	}
	// An import that reported success is a writer: the directory it produced must validate.
	check("initial", len(alias) > 0, false)
	steps := t.Range("steps", 2, 7)
	for s := 0; s < steps && !r.Failed(); s++ {
		m := readDirBytes(w.Mig)
		names := sqlFiles(m)
		if len(names) == 0 || t.Chance("writer-step", 3, 7) {
			next++
			// The name a user gives a new file is free text: it may hold blanks and may read like a
			// part of a sum-file line.
			label := fmt.Sprintf("n%03d", next)
			switch t.Weighted("file-label", 6, 1, 1, 1, 1) {
			case 4:
				label += "_50%"
				r.Probe("file-label-with-a-percent-sign")
			case 1:
				label = "h1:" + label
				r.Probe("file-label-reads-like-a-sum-entry")
			case 2:
				label += "_h1:x"
				r.Probe("file-label-reads-like-a-sum-entry")
			case 3:
				label = "add " + label
			}
			var res CmdResult
			var what string
			switch t.Weighted("writer", 3, 2, 3) {
			case 0:
				what = "migrate-new"
				res = w.Atlas(nil, "migrate", "new", label, "--dir", w.DirURL())
				// `migrate new` refuses a tampered directory: then nothing is written.
			case 1:
				what = "migrate-hash"
				res = w.Atlas(nil, "migrate", "hash", "--dir", w.DirURL())
			default:
				what = "migrate-diff"
				desiredTables++
				var ts []sTable
				for i := 1; i <= desiredTables; i++ {
					ts = append(ts, sTable{Name: fmt.Sprintf("d%d", i)})
				}
				os.WriteFile(schemaPath, []byte(hclOf(ts)), 0o644)
				res = w.Atlas(nil, "migrate", "diff", label, "--dir", w.DirURL(), "--to", "file://"+schemaPath, "--dev-url", w.DevURL())
			}
			register()
			r.Fired("writer/" + what)
			r.Sample("`%s` -> %s (directory valid before: %v)", what, res.Class(), valid)
			if res.Panicked {
				r.Fail(propC06, "no-crash", "writer-panic/"+what, "%s panicked: %s", what, res.ErrLine())
				return
			}
			if res.Exit != 0 && valid && what != "migrate-diff" {
				r.Fail(propC06, "writer-leaves-valid", "writer-failed-on-valid-dir/"+what, "%s failed on a valid directory: %s", what, res.ErrLine())
				return
			}
			if res.Exit != 0 && !valid && what != "migrate-hash" && !strings.Contains(res.Stderr+res.Stdout, "checksum") && !strings.Contains(res.Stderr+res.Stdout, "atlas.sum") {
				r.Probe("writer-failed-on-tampered-dir-other-error")
			}
			// Every command that consumes the directory validates it first: only `migrate hash`, whose
			// purpose that is, may turn a tampered directory into a valid one.
			if res.Exit == 0 && !valid && what != "migrate-hash" {
				r.Fail(propC06, "integrity", "tampered-directory-accepted/"+what, "the directory did not validate, yet %s accepted it (and re-hashed it)", what)
				return
			}
			if !valid && what != "migrate-hash" {
				r.Probe("writer-refuses-tampered-directory")
			}
			check(what, res.Exit == 0, false)
			continue
		}
		// Adversary.
		pick := func() string { return names[t.Draw("file", len(names))] }
		must := true
		var what string
		switch t.Weighted("tamper", 4, 2, 2, 2, 2, 3, 2) {
		case 6: // the sum file disappears (with the files still there, that is a tampered directory)
			if _, ok := m["atlas.sum"]; !ok {
				continue
			}
			os.Remove(filepath.Join(w.Mig, "atlas.sum"))
			what = "remove-sum-file"
		case 0:
			n := pick()
			b := append([]byte(nil), m[n]...)
			if len(b) == 0 {
				b = []byte("x")
			} else if k := bytes.IndexByte(b, '\n'); k >= 0 && t.Chance("insert-carriage-return", 1, 4) {
				b = append(b[:k], append([]byte{'\r'}, b[k:]...)...)
			} else {
				b[t.Draw("byte-pos", len(b))] ^= 0x01
			}
			if strings.Contains(strings.SplitN(string(b), "\n", 2)[0], "atlas:sum") {
				continue
			}
			os.WriteFile(filepath.Join(w.Mig, n), b, 0o644)
			what = "flip-byte " + nameOf(n)
		case 1:
			n := fmt.Sprintf("2000010100000%d_added.sql", next%10)
			if t.Chance("add-last", 1, 2) {
				n = fmt.Sprintf("3000010100000%d_added.sql", next%10)
			}
			next++
			if _, ok := m[n]; ok {
				continue
			}
			os.WriteFile(filepath.Join(w.Mig, n), []byte("CREATE TABLE added (x int);\n"), 0o644)
			what = "add-file " + nameOf(n)
		case 2:
			n := pick()
			os.Remove(filepath.Join(w.Mig, n))
			what = "remove-file " + nameOf(n)
		case 3:
			n := pick()
			nn := strings.TrimSuffix(n, ".sql") + "x.sql"
			if _, ok := m[nn]; ok {
				continue
			}
			os.Rename(filepath.Join(w.Mig, n), filepath.Join(w.Mig, nn))
			what = "rename-file " + nameOf(n) + " -> " + nameOf(nn)
		case 4:
			if len(names) < 2 {
				continue
			}
			a, b := pick(), pick()
			if a == b || string(m[a]) == string(m[b]) {
				continue
			}
			os.WriteFile(filepath.Join(w.Mig, a), m[b], 0o644)
			os.WriteFile(filepath.Join(w.Mig, b), m[a], 0o644)
			what = "swap-contents " + nameOf(a) + " " + nameOf(b)
		default:
			sb, ok := m["atlas.sum"]
			if !ok || len(sb) < 10 {
				continue
			}
			l := append([]byte(nil), sb...)
			p := t.Draw("sum-char", len(l))
			if l[p] == ' ' || l[p] == '\n' {
				continue
			}
			if l[p] == 'Z' {
				l[p] = 'Y'
			} else {
				l[p] = 'Z'
			}
			os.WriteFile(filepath.Join(w.Mig, "atlas.sum"), l, 0o644)
			what = "sum-replace-char"
		}
		r.Fired("tamper/" + strings.Fields(what)[0])
		r.Sample("%s (valid before=%v)", what, valid)
		r.Nontrivial()
		check(what, false, must)
	}
}
