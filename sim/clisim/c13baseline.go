package clisim

import (
	"fmt"

	"verif/sim/observe"
	"verif/sim/simkit"
)

// C13Baseline — the first run on a database that already holds the schema of some version
// (`--baseline <version>`) meets a failing statement. The baseline revision is part of the
// revision history: in all mode a failed command leaves the database and the revision table
// exactly as before, baseline row included; in file mode the state is the one after the last
// completely applied file. Fixing the file and running again reaches the fault-free state.
func C13Baseline(r *simkit.Run) {
	t := r.T
	w := NewWorld(r)
	g := []string{"file", "all"}[int(r.Env.RunIndex)%2]
	files := GenDir(t, 2, 4, 3, true)
	b := t.Draw("baseline-file", len(files)-1) // index of the baseline file; at least one file follows it
	// The database already holds what the files up to the baseline create, and knows nothing of Atlas:
	// they are applied and the bookkeeping table is removed.
	w.WriteDir(files)
	if res := w.Atlas(nil, "migrate", "apply", fmt.Sprint(b+1), "--dir", w.DirURL(), "--url", w.URL()); res.Exit != 0 {
		simkit.Harnessf("baseline setup apply failed: %s", res.ErrLine())
	}
	db, err := observe.Open(w.DB)
	if err != nil {
		simkit.Harnessf("open: %v", err)
	}
	if _, err := db.Exec("DROP TABLE " + observe.RevTable); err != nil {
		simkit.Harnessf("drop bookkeeping: %v", err)
	}
	db.Close()
	// One statement of a later file fails.
	bf := files[b+1+t.Draw("bad-file", len(files)-b-1)]
	bk := t.Draw("bad-stmt", len(bf.Stmts))
	good := bf.Stmts[bk]
	bf.Stmts[bk] = MkStmt(fmt.Sprintf("f%d", bf.Idx), bk, KBad)
	w.WriteDir(files)
	before := w.Observe()
	args := []string{"migrate", "apply", "--dir", w.DirURL(), "--url", w.URL(), "--tx-mode", g, "--baseline", files[b].Version}
	r.Sample("tx-mode=%s dir: %s; the database holds files 1..%d without history; `migrate apply --baseline %s`; statement %d of %s fails", g, Describe(files), b+1, files[b].Version, bk, bf.Name)
	res := w.Atlas(nil, args...)
	d := w.Observe()
	r.Logf("apply --baseline %s g=%s bad=%s#%d -> %s effects=%s revs=[%s]", files[b].Version, g, bf.Name, bk, res.Class(), EffectVector(d, files), d.RevDigest())
	r.Sample("-> %s (%s); effects %s revisions [%s]", res.Class(), firstN(res.ErrLine(), 120), EffectVector(d, files), d.RevDigest())
	r.Nontrivial()
	r.Fired("statement-failure-on-baselined-first-run/" + g)
	if res.Panicked {
		r.Fail(propC13, "panic", "panic/baseline", "migrate apply --baseline panicked: %s", res.ErrLine())
		return
	}
	if res.Exit == 0 {
		r.Fail(propC13, "exit-status", "error-swallowed/baseline/"+g, "a statement failed but `migrate apply --baseline` exited 0")
		return
	}
	c := &c10{r: r, w: w, files: files, mode: g, allowedDup: map[string]int{}}
	switch g {
	case "all":
		if fullDigest(d) != fullDigest(before) {
			what := "user-objects"
			if d.UserDigest() == before.UserDigest() {
				what = "revision-history"
				// The one difference may be the baseline row itself (0 of 0 statements, no error).
				if rev, ok := d.Rev(files[b].Version); ok && len(d.Revs) == 1 && len(before.Revs) == 0 && rev.Applied == 0 && rev.Total == 0 && rev.Error == "" {
					r.Fail(propC13, "apply-atomicity", "baseline-revision-survives-failed-all-mode-run", "`migrate apply --tx-mode all --baseline %s` failed at %s and rolled everything back except the baseline revision it had written: revisions before [%s] after [%s]", files[b].Version, bf.Name, before.RevDigest(), d.RevDigest())
					return
				}
			}
			r.Fail(propC13, "apply-atomicity", "all-mode-failure-changed-state/baseline/"+what, "`migrate apply --tx-mode all --baseline %s` failed at %s, yet the %s is not as before the command: revisions before [%s] after [%s]; effects %s", files[b].Version, bf.Name, what, before.RevDigest(), d.RevDigest(), EffectVector(d, files))
			return
		}
	default:
		for i, f := range files {
			switch {
			case i <= b: // created by the setup, never run by this command, at most the baseline row
				if lead, _ := c.lead(d, f); lead != len(f.Stmts) {
					r.Fail(propC13, "apply-atomicity", "baselined-file-changed/file", "%s belongs to the baseline and must stay as it was: effects %s", f.Name, EffectVector(d, files))
					return
				}
				if _, ok := d.Rev(f.Version); ok && i != b {
					r.Fail(propC13, "apply-atomicity", "baselined-file-recorded/file", "%s lies before the baseline version and got a revision: [%s]", f.Name, d.RevDigest())
					return
				}
			case f.Idx < bf.Idx && !c.complete(d, f):
				r.Fail(propC13, "apply-atomicity", "completed-file-lost/baseline/file", "%s was applied completely before the failure and must be complete: effects %s revisions [%s]", f.Name, EffectVector(d, files), d.RevDigest())
				return
			case f.Idx >= bf.Idx && !c.untouched(d, f):
				r.Fail(propC13, "apply-atomicity", "failed-file-left-traces/baseline/file", "%s failed (or comes after the failure) and must leave no trace: effects %s revisions [%s]", f.Name, EffectVector(d, files), d.RevDigest())
				return
			}
		}
	}
	// The file is fixed; the same command completes, every statement of the files after the
	// baseline exactly once, nothing of the baselined files run again.
	bf.Stmts[bk] = good
	w.WriteDir(files)
	res = w.Atlas(nil, args...)
	d = w.Observe()
	r.Logf("fixed, apply again -> %s effects=%s revs=[%s]", res.Class(), EffectVector(d, files), d.RevDigest())
	r.Sample("file fixed, same command -> %s; effects %s revisions [%s]", res.Class(), EffectVector(d, files), d.RevDigest())
	if res.Exit != 0 {
		r.Fail(propC13, "fix-rerun", "rerun-after-fix-fails/baseline/"+g, "after the fix the same command does not complete: %s", res.ErrLine())
		return
	}
	for i, f := range files {
		for _, s := range f.Stmts {
			if n := Effect(d, s); n != 1 {
				r.Fail(propC13, "fix-rerun", "final-state-differs/baseline/"+g, "statement %s took effect %d times at the end (effects %s)", s.ID, n, EffectVector(d, files))
				return
			}
		}
		if i > b && !c.complete(d, f) {
			r.Fail(propC13, "fix-rerun", "incomplete-after-fix/baseline/"+g, "%s is not complete at the end: revisions [%s]", f.Name, d.RevDigest())
			return
		}
	}
}
