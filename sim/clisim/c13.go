package clisim

import (
	"fmt"
	"strings"

	"ariga.io/atlas/sql/migrate"

	"verif/sim/observe"
	"verif/sim/simkit"
)

const propC13 = "C13"

// fileExpect is the model's expectation for one file (DESIGN Appendix B).
type fileExpect struct {
	state   string // complete | absent | partial
	applied int    // for partial
}

func effective(g string, f *MFile) string {
	if f.TxMode != "" {
		return f.TxMode
	}
	return g
}

// modelApply computes, per file, what `migrate apply [n] --tx-mode g` must leave behind.
// prior marks files already complete before the command. Returns expectations and
// whether the command must fail.
func modelApply(files []*MFile, prior map[int]bool, g string, n int) (map[int]fileExpect, bool) {
	before := map[int]fileExpect{}
	for _, f := range files {
		if prior[f.Idx] {
			before[f.Idx] = fileExpect{state: "complete"}
		}
	}
	return modelApplyFrom(files, before, g, n)
}

// modelApplyFrom is modelApply from an arbitrary earlier outcome (files may be partially applied).
func modelApplyFrom(files []*MFile, beforeExp map[int]fileExpect, g string, n int) (map[int]fileExpect, bool) {
	exp := map[int]fileExpect{}
	var pend []*MFile
	start := map[int]int{}
	for _, f := range files {
		switch b := beforeExp[f.Idx]; b.state {
		case "complete":
			exp[f.Idx] = b
		case "partial":
			exp[f.Idx] = b
			start[f.Idx] = b.applied
			pend = append(pend, f)
		default:
			exp[f.Idx] = fileExpect{state: "absent"}
			pend = append(pend, f)
		}
	}
	if n > 0 && n < len(pend) {
		pend = pend[:n]
	}
	bad := func(f *MFile) int {
		for k, s := range f.Stmts {
			if s.Kind == KBad && k >= start[f.Idx] {
				return k
			}
		}
		return -1
	}
	if g == "all" {
		for _, f := range pend {
			if bad(f) >= 0 || f.TxMode != "" {
				return exp, true // everything or nothing
			}
		}
		for _, f := range pend {
			exp[f.Idx] = fileExpect{state: "complete"}
		}
		return exp, false
	}
	for _, f := range pend {
		if k := bad(f); k >= 0 {
			if effective(g, f) == "file" {
				return exp, true // this file leaves no trace
			}
			exp[f.Idx] = fileExpect{state: "partial", applied: k}
			return exp, true
		}
		exp[f.Idx] = fileExpect{state: "complete"}
	}
	return exp, false
}

func (w *World) sumOf(name string) string {
	d, err := migrate.NewLocalDir(w.Mig)
	if err != nil {
		simkit.Harnessf("sum: %v", err)
	}
	hf, err := d.Checksum()
	if err != nil {
		simkit.Harnessf("sum: %v", err)
	}
	h, _ := hf.SumByName(name)
	return h
}

// compareApply compares the observed dump with the expectations; it returns the
// first divergent file and a description, or nil.
func compareApply(w *World, d *observe.Dump, files []*MFile, exp map[int]fileExpect, checkHash bool) (*MFile, string) {
	for _, f := range files {
		e := exp[f.Idx]
		rev, hasRev := d.Rev(f.Version)
		var eff []int
		for _, s := range f.Stmts {
			eff = append(eff, Effect(d, s))
		}
		want := make([]int, len(f.Stmts))
		switch e.state {
		case "complete":
			for i, s := range f.Stmts {
				if s.Kind != KBad {
					want[i] = 1
				}
			}
		case "partial":
			for i := 0; i < e.applied; i++ {
				want[i] = 1
			}
		}
		if fmt.Sprint(eff) != fmt.Sprint(want) {
			return f, fmt.Sprintf("%s expected %s with effects %v, observed effects %v", f.Name, e.state, want, eff)
		}
		switch e.state {
		case "absent":
			if hasRev {
				return f, fmt.Sprintf("%s expected to leave no trace, but revision [%s] exists", f.Name, rev)
			}
		case "complete":
			if !hasRev || rev.Applied != len(f.Stmts) || rev.Total != len(f.Stmts) || rev.Error != "" || rev.ErrorStmt != "" || rev.PartialCount() != 0 {
				return f, fmt.Sprintf("%s expected complete revision %d/%d without error, observed [%s] (has=%v)", f.Name, len(f.Stmts), len(f.Stmts), rev, hasRev)
			}
			if checkHash {
				if h := w.sumOf(f.Name); rev.Hash != h {
					return f, fmt.Sprintf("%s: revision hash %s is not the file's hash %s (a fault-free run records the file's hash)", f.Name, rev.Hash, h)
				}
			}
		case "partial":
			badSQL := f.Stmts[e.applied].SQL
			if !hasRev || rev.Applied != e.applied || rev.Total != len(f.Stmts) || rev.Error == "" || !strings.HasPrefix(rev.ErrorStmt, badSQL) || rev.PartialCount() != e.applied {
				return f, fmt.Sprintf("%s expected partial revision %d/%d with the error recorded on %q and %d partial hashes, observed [%s] error_stmt=%q (has=%v)", f.Name, e.applied, len(f.Stmts), badSQL, e.applied, rev, rev.ErrorStmt, hasRev)
			}
		}
	}
	// No user object beyond the generated ones, no revision for unknown versions.
	known := map[string]bool{}
	for _, f := range files {
		known[f.Version] = true
	}
	for _, r := range d.Revs {
		if !known[r.Version] {
			return files[0], fmt.Sprintf("revision for unknown version %s", r.Version)
		}
	}
	return nil, ""
}

// C13Apply — failure atomicity of `migrate apply` per transaction mode, then fix and re-run.
func C13Apply(r *simkit.Run) {
	t := r.T
	w := NewWorld(r)
	g := TxModes[int(r.Env.RunIndex)%len(TxModes)]
	files := GenDir(t, 1, 4, 4, true)
	// Per-file directives.
	if t.Chance("use-directives", 1, 2) {
		for _, f := range files {
			switch t.Weighted("directive", 3, 1, 1) {
			case 1:
				f.TxMode = "none"
			case 2:
				f.TxMode = "file"
			}
			if f.TxMode == g {
				r.Probe("directive-equals-global")
			}
		}
	}
	// A third of the runs connect with _fk=1 (foreign keys enforced). There a failing statement may
	// also be an insert that violates a foreign key: outside a transaction it fails at once, inside
	// one (Atlas suspends enforcement in its transactions and checks before committing) it makes
	// the commit fail — the other position of a failure the modes have to cope with.
	w.FK = t.Chance("foreign-keys-enforced", 1, 3)
	fkChild := ""
	if w.FK {
		f1 := files[0]
		k := len(f1.Stmts)
		pid, cid := fmt.Sprintf("f1.s%d", k), fmt.Sprintf("f1.s%d", k+1)
		f1.Stmts = append(f1.Stmts,
			Stmt{ID: pid, Kind: KDDL, SQL: fmt.Sprintf("CREATE TABLE IF NOT EXISTS %s (id integer PRIMARY KEY)", ddlTable(pid))},
			Stmt{ID: cid, Kind: KDDL, SQL: fmt.Sprintf("CREATE TABLE IF NOT EXISTS %s (id text, pid integer REFERENCES %s (id))", ddlTable(cid), ddlTable(pid))})
		fkChild = ddlTable(cid)
		r.Probe("foreign-keys-enforced")
	}
	// Sometimes the target already holds a foreign-key violation of its own (an orphan row in tables
	// the directory knows nothing about): Atlas tolerates what was there before a transaction and
	// refuses only *new* violations, so a statement that replaces the old orphan by another one
	// must still make the commit fail.
	preViolation := false
	if w.FK && t.Chance("violation-present-before", 1, 3) {
		db, err := observe.Open(w.DB)
		if err != nil {
			simkit.Harnessf("open: %v", err)
		}
		if _, err := db.Exec("CREATE TABLE pre_parent (id integer PRIMARY KEY); CREATE TABLE pre_child (id text PRIMARY KEY, pid integer REFERENCES pre_parent (id)); INSERT INTO pre_child VALUES ('pre', 111111)"); err != nil {
			simkit.Harnessf("pre-existing violation: %v", err)
		}
		db.Close()
		preViolation = true
		r.Probe("foreign-key-violation-present-before")
	}
	// A statement whose conflict clause is OR ROLLBACK: when it fails, SQLite itself ends the
	// transaction it runs in, behind the back of whoever opened it.
	orRollbackTable := ""
	if t.Chance("or-rollback-statements", 1, 5) {
		f1 := files[0]
		id := fmt.Sprintf("f1.s%d", len(f1.Stmts))
		f1.Stmts = append(f1.Stmts, Stmt{ID: id, Kind: KDDL, SQL: fmt.Sprintf("CREATE TABLE IF NOT EXISTS %s (id integer PRIMARY KEY)", ddlTable(id))})
		orRollbackTable = ddlTable(id)
	}
	usedOrRollback := false
	mkBad := func(tag string, k int) Stmt {
		if orRollbackTable != "" && t.Chance("bad-with-or-rollback", 1, 2) {
			usedOrRollback = true
			r.Probe("failing-statement-with-or-rollback")
			return Stmt{ID: fmt.Sprintf("%s.s%d", tag, k), Kind: KBad, SQL: fmt.Sprintf("INSERT OR ROLLBACK INTO %s (id) VALUES (7), (7)", orRollbackTable)}
		}
		if preViolation && t.Chance("bad-replaces-the-old-orphan", 1, 2) {
			r.Probe("failing-statement-replaces-an-old-violation-by-a-new-one")
			id := fmt.Sprintf("%s.s%d", tag, k)
			return Stmt{ID: id, Kind: KBad, SQL: "REPLACE INTO pre_child (id, pid) VALUES ('pre', 424242)"}
		}
		if fkChild != "" && t.Chance("bad-by-foreign-key", 1, 2) {
			r.Probe("failing-statement-violates-foreign-key")
			id := fmt.Sprintf("%s.s%d", tag, k)
			return Stmt{ID: id, Kind: KBad, SQL: fmt.Sprintf("INSERT INTO %s (id, pid) VALUES ('%s', 424242)", fkChild, id)}
		}
		return MkStmt(tag, k, KBad)
	}
	// One failing statement somewhere (fault), except in fault-free runs.
	var badFile *MFile
	badIdx := -1
	if !t.Chance("fault-free-run", 1, 6) {
		badFile = files[t.Draw("bad-file", len(files))]
		badIdx = t.Draw("bad-stmt", len(badFile.Stmts))
		if badFile.Idx == 1 && badIdx == 0 {
			if len(badFile.Stmts) > 1 {
				badIdx = 1
			} else {
				badFile.Stmts = append(badFile.Stmts, MkStmt("f1", 1, KInsert))
				badIdx = 1
			}
		}
		badFile.Stmts[badIdx] = mkBad(fmt.Sprintf("f%d", badFile.Idx), badIdx)
		// Sometimes a second statement fails too, further down the same file or in a later file.
		if t.Chance("second-bad-statement", 1, 3) {
			f2 := files[badFile.Idx-1+t.Draw("second-bad-file", len(files)-badFile.Idx+1)]
			k2 := t.Draw("second-bad-stmt", len(f2.Stmts))
			if (f2 != badFile || k2 > badIdx) && !(f2.Idx == 1 && k2 == 0) {
				f2.Stmts[k2] = mkBad(fmt.Sprintf("f%d", f2.Idx), k2)
			}
		}
		r.Tag("fault-injecting")
	} else {
		r.Tag("fault-free")
	}
	w.WriteDir(files)
	r.Sample("tx-mode=%s dir: %s", g, Describe(files))
	r.Logf("g=%s dir=%s", g, Describe(files))
	apply := func(n int) CmdResult {
		args := []string{"migrate", "apply"}
		if n > 0 {
			args = append(args, fmt.Sprint(n))
		}
		args = append(args, "--dir", w.DirURL(), "--url", w.URL(), "--tx-mode", g)
		if preViolation {
			args = append(args, "--allow-dirty")
		}
		return w.Atlas(nil, args...)
	}
	sigOf := func(f *MFile) string {
		dir := "nodirective"
		if f.TxMode != "" {
			dir = "directive-" + f.TxMode
		}
		return fmt.Sprintf("g=%s/%s", g, dir)
	}
	// Once a failing OR ROLLBACK statement has ended a transaction behind Atlas' back, everything
	// that deviates afterwards is one and the same (recorded) finding.
	orRollbackFired := false
	sigFor := func(kind string, f *MFile) string {
		if orRollbackFired {
			return "or-rollback-statement-ends-the-transaction"
		}
		if f == nil {
			return kind
		}
		return kind + "/" + sigOf(f)
	}
	noteOrRollback := func(res CmdResult) {
		if usedOrRollback && strings.Contains(res.Stderr+res.Stdout, "INSERT OR ROLLBACK") && strings.Contains(res.Stderr+res.Stdout, "no transaction is active") {
			orRollbackFired = true
			r.Fired("or-rollback-ended-the-transaction")
		}
	}
	prior := map[int]bool{}
	// Optionally an earlier clean apply of files that precede the failing one.
	limit := len(files)
	if badFile != nil {
		limit = badFile.Idx - 1
	}
	conflicts := func(fs []*MFile) bool {
		for _, f := range fs {
			if g == "all" && f.TxMode != "" {
				return true
			}
		}
		return false
	}
	if limit >= 1 && t.Chance("earlier-apply", 1, 3) {
		n := t.Range("earlier-n", 1, limit)
		exp, fail := modelApply(files, prior, g, n)
		res := apply(n)
		noteOrRollback(res)
		d := w.Observe()
		r.Logf("earlier apply %d -> %s effects=%s revs=[%s]", n, res.Class(), EffectVector(d, files), d.RevDigest())
		r.Sample("earlier `migrate apply %d` -> %s; effects %s revisions [%s]", n, res.Class(), EffectVector(d, files), d.RevDigest())
		if res.Panicked {
			r.Fail(propC13, "panic", "panic/apply", "migrate apply panicked: %s", res.ErrLine())
			return
		}
		if f, why := compareApply(w, d, files, exp, true); f != nil {
			r.Fail(propC13, "apply-atomicity", sigFor("apply-atomicity", f), "after clean `migrate apply %d --tx-mode %s`: %s; effects %s revisions [%s]; CLI said: %s", n, g, why, EffectVector(d, files), d.RevDigest(), res.ErrLine())
			return
		}
		if fail != (res.Exit != 0) {
			r.Fail(propC13, "exit-status", sigFor("exit-status/"+g, nil), "earlier `migrate apply %d`: model says fail=%v, exit=%d (%s)", n, fail, res.Exit, res.ErrLine())
			return
		}
		if !fail {
			for _, f := range files[:n] {
				prior[f.Idx] = true
			}
		}
		_ = conflicts
	}
	// The faulty (or fault-free) apply.
	n := 0
	if t.Chance("count-arg", 1, 3) {
		n = t.Range("count", 1, len(files))
	}
	exp, fail := modelApply(files, prior, g, n)
	res := apply(n)
	noteOrRollback(res)
	d := w.Observe()
	r.Logf("apply n=%d -> %s effects=%s revs=[%s]", n, res.Class(), EffectVector(d, files), d.RevDigest())
	r.Sample("`migrate apply%s --tx-mode %s` -> %s (%s); effects %s revisions [%s]", countArg(n), g, res.Class(), res.ErrLine(), EffectVector(d, files), d.RevDigest())
	r.Nontrivial()
	if res.Panicked {
		r.Fail(propC13, "panic", "panic/apply", "migrate apply panicked: %s", res.ErrLine())
		return
	}
	if fail {
		r.Fired("statement-failure-or-directive-conflict")
		if badFile != nil {
			if e := exp[badFile.Idx]; e.state == "partial" {
				r.Probe("partial-prefix-recorded")
			} else if e.state == "absent" && badIdx > 0 {
				r.Probe("rolled-back-after-progress")
			}
		}
	}
	if f, why := compareApply(w, d, files, exp, true); f != nil {
		r.Fail(propC13, "apply-atomicity", sigFor("apply-atomicity", f), "after `migrate apply%s --tx-mode %s`: %s; effects %s revisions [%s]; CLI said: %s", countArg(n), g, why, EffectVector(d, files), d.RevDigest(), res.ErrLine())
		return
	}
	if fail != (res.Exit != 0) {
		r.Fail(propC13, "exit-status", sigFor("exit-status/"+g, nil), "`migrate apply%s`: model says fail=%v, exit=%d (%s)", countArg(n), fail, res.Exit, res.ErrLine())
		return
	}
	// Fix the file (replace the failing statement, drop conflicting directives), re-hash, re-run:
	// the final state must be the one a fault-free run of the fixed directory produces. A second
	// failing statement further down makes the re-run fail again; it is fixed in turn.
	fixFirstBad := func() bool {
		for _, f := range files {
			for k, st := range f.Stmts {
				if st.Kind == KBad {
					// The author either corrects the statement or takes it out of the file.
					if len(f.Stmts) > 1 && t.Chance("fix-by-deleting-the-statement", 1, 3) {
						f.Stmts = append(f.Stmts[:k:k], f.Stmts[k+1:]...)
						r.Probe("fixed-by-deleting-the-failing-statement")
						if k == len(f.Stmts) {
							r.Probe("fixed-by-deleting-the-last-statement")
						}
						return true
					}
					// (The corrected statement keeps the id of the one it replaces: positions may have
					// shifted by an earlier deletion.)
					f.Stmts[k] = Stmt{ID: st.ID, Kind: KInsert, SQL: fmt.Sprintf("INSERT INTO journal (id) VALUES ('%s')", st.ID)}
					return true
				}
			}
		}
		return false
	}
	fixFirstBad()
	if g == "all" {
		for _, f := range files {
			f.TxMode = ""
		}
	}
	w.WriteDir(files)
	r.Logf("fix + rehash")
	for remaining := true; remaining; {
		remaining = false
		for _, f := range files {
			for _, st := range f.Stmts {
				if st.Kind == KBad {
					remaining = true
				}
			}
		}
		if !remaining {
			break
		}
		exp2, fail2 := modelApplyFrom(files, exp, g, 0)
		res = apply(0)
		noteOrRollback(res)
		d = w.Observe()
		r.Logf("rerun with another failing statement -> %s effects=%s revs=[%s]", res.Class(), EffectVector(d, files), d.RevDigest())
		r.Sample("re-run hits the second failing statement -> %s (%s); effects %s revisions [%s]", res.Class(), firstN(res.ErrLine(), 100), EffectVector(d, files), d.RevDigest())
		r.Probe("second-failure-after-fix")
		if res.Panicked {
			r.Fail(propC13, "panic", "panic/rerun", "migrate apply panicked on re-run: %s", res.ErrLine())
			return
		}
		if f, why := compareApply(w, d, files, exp2, true); f != nil {
			r.Fail(propC13, "apply-atomicity", sigFor("apply-atomicity-second-failure", f), "after the second failure (`--tx-mode %s`): %s; effects %s revisions [%s]; CLI said: %s", g, why, EffectVector(d, files), d.RevDigest(), res.ErrLine())
			return
		}
		if fail2 != (res.Exit != 0) {
			r.Fail(propC13, "exit-status", sigFor("exit-status/"+g, nil), "re-run: model says fail=%v, exit=%d (%s)", fail2, res.Exit, res.ErrLine())
			return
		}
		exp = exp2
		fixFirstBad()
		w.WriteDir(files)
	}
	res = apply(0)
	d = w.Observe()
	r.Logf("rerun -> %s effects=%s revs=[%s]", res.Class(), EffectVector(d, files), d.RevDigest())
	r.Sample("fix the file, `migrate hash`, `migrate apply --tx-mode %s` -> %s (%s); effects %s revisions [%s]", g, res.Class(), res.ErrLine(), EffectVector(d, files), d.RevDigest())
	if res.Panicked {
		r.Fail(propC13, "panic", "panic/rerun", "migrate apply panicked on re-run: %s", res.ErrLine())
		return
	}
	final := map[int]fileExpect{}
	for _, f := range files {
		final[f.Idx] = fileExpect{state: "complete"}
	}
	if f, why := compareApply(w, d, files, final, true); f != nil {
		r.Fail(propC13, "fix-rerun", sigFor("fix-rerun", f), "after fixing and re-running (`--tx-mode %s`) the state differs from a fault-free run: %s; effects %s revisions [%s]; CLI said: %s", g, why, EffectVector(d, files), d.RevDigest(), res.ErrLine())
		return
	}
	if res.Exit != 0 {
		r.Fail(propC13, "fix-rerun", sigFor("fix-rerun-exit/"+g, nil), "re-run after fix exits %d: %s", res.Exit, res.ErrLine())
	}
}
