package clisim

import (
	"encoding/json"
	"fmt"
	"os"
	"path/filepath"
	"sort"
	"strings"

	"verif/sim/model"
	"verif/sim/observe"
	"verif/sim/simkit"
)

const propC11 = "C11"

type c11w struct {
	r     *simkit.Run
	w     *World
	files []*MFile
	ck    map[int]bool // checkpoint files by index
	used  map[int]bool
}

func (c *c11w) sorted() {
	sort.Slice(c.files, func(i, j int) bool { return c.files[i].Name < c.files[j].Name })
}

func (c *c11w) maxIdx() int {
	m := 0
	for _, f := range c.files {
		if f.Idx > m {
			m = f.Idx
		}
	}
	return m
}

func (c *c11w) add(t *simkit.Tape, idx int, ck bool, bad bool) {
	tag := fmt.Sprintf("f%d", idx)
	f := &MFile{Idx: idx, Version: Version(idx), Name: fmt.Sprintf("%s_%s.sql", Version(idx), tag)}
	n := t.Range("stmts", 1, 3)
	// Every file (re)creates the journal first: files may run in any order, and a
	// checkpoint must be self-contained.
	f.Stmts = append(f.Stmts, Stmt{ID: tag + ".s0", Kind: KDDL, SQL: journalDDL})
	for k := 1; k <= n; k++ {
		f.Stmts = append(f.Stmts, MkStmt(tag, k, KInsert))
	}
	if bad {
		k := 1 + t.Draw("bad-at", n)
		f.Stmts[k] = MkStmt(tag, k, KBad)
	}
	c.files = append(c.files, f)
	c.used[idx] = true
	c.ck[idx] = ck
	c.sorted()
	c.write(f)
	c.w.Seal()
}

func (c *c11w) write(f *MFile) {
	body := f.Body()
	if c.ck[f.Idx] {
		body = "-- atlas:checkpoint\n\n" + body
	}
	c.w.WriteFile(f.Name, body)
}

func (c *c11w) byVersion(v string) *MFile {
	for _, f := range c.files {
		if f.Version == v {
			return f
		}
	}
	return nil
}

func (c *c11w) modelFiles() []model.File {
	out := make([]model.File, len(c.files))
	for i, f := range c.files {
		out[i] = model.File{Version: f.Version, Name: f.Name, Checkpoint: c.ck[f.Idx]}
	}
	return out
}

func modelRevsOf(d *observe.Dump) []model.Rev {
	var out []model.Rev
	for _, r := range d.Revs {
		out = append(out, model.Rev{Version: r.Version, Applied: r.Applied, Total: r.Total, Resolved: r.Type&4 != 0})
	}
	return out
}

func (c *c11w) names(fs []model.File) string {
	var out []string
	for _, f := range fs {
		s := fmt.Sprintf("f%d", c.byVersion(f.Version).Idx)
		if f.Checkpoint {
			s += "*"
		}
		out = append(out, s)
	}
	return strings.Join(out, " ")
}

func (c *c11w) dirDesc() string {
	var out []string
	for _, f := range c.files {
		s := Describe([]*MFile{f})
		if c.ck[f.Idx] {
			s = strings.Replace(s, "(", "*(", 1)
		}
		out = append(out, s)
	}
	return strings.Join(out, " ")
}

func revsDesc(rs []model.Rev) string {
	var out []string
	for _, r := range rs {
		s := fmt.Sprintf("%s:%d/%d", strings.TrimLeft(r.Version, "0"), r.Applied, r.Total)
		if r.Resolved {
			s += "R"
		}
		out = append(out, s)
	}
	return strings.Join(out, ",")
}

func userTables(d *observe.Dump) bool {
	for _, m := range d.Master {
		if strings.HasPrefix(m, "table|") {
			return true
		}
	}
	return false
}

// C11CLI — status, apply-with-count and set-version agree with the documented pending decision.
func C11CLI(r *simkit.Run) {
	t := r.T
	w := NewWorld(r)
	c := &c11w{r: r, w: w, ck: map[int]bool{}, used: map[int]bool{}}
	n0 := t.Range("initial-files", 1, 3)
	for i := 0; i < n0; i++ {
		c.add(t, c.maxIdx()+1+t.Draw("gap", 2), false, false)
	}
	r.Logf("dir=%s", c.dirDesc())
	r.Sample("initial dir: %s", c.dirDesc())
	class := func(revs []model.Rev, o model.Options) string {
		var fs []string
		if len(revs) == 0 {
			fs = append(fs, "first-run")
			if !o.Clean {
				fs = append(fs, "dirty")
			}
			if o.Baseline != "" {
				fs = append(fs, "baseline")
			}
		} else {
			for i, x := range revs {
				if x.Applied != x.Total {
					s := "partial"
					if x.Resolved {
						s = "resolved-partial"
					}
					if i < len(revs)-1 {
						s = "non-last-" + s
					} else {
						s = "last-" + s
					}
					fs = append(fs, s)
				}
			}
		}
		for _, f := range c.files {
			if c.ck[f.Idx] {
				fs = append(fs, "checkpoint")
				break
			}
		}
		fs = append(fs, o.Order)
		return strings.Join(fs, ",")
	}
	actions := t.Range("actions", 2, 7)
	for a := 0; a < actions && !r.Failed(); a++ {
		switch t.Weighted("action", 5, 2, 2, 1, 1, 2, 3, 2, 2) {
		case 1:
			c.add(t, c.maxIdx()+1+t.Draw("gap", 2), false, t.Chance("bad-stmt", 1, 4))
			r.Logf("add newer -> %s", c.dirDesc())
			r.Sample("add newer file -> dir: %s", c.dirDesc())
			continue
		case 2:
			var free []int
			for i := 1; i < c.maxIdx(); i++ {
				if !c.used[i] {
					free = append(free, i)
				}
			}
			if len(free) == 0 {
				c.add(t, c.maxIdx()+2, false, false)
			} else {
				c.add(t, free[t.Draw("ooo-slot", len(free))], false, t.Chance("bad-stmt", 1, 4))
				r.Probe("out-of-order-file-added")
			}
			r.Logf("add older -> %s", c.dirDesc())
			r.Sample("add file with an older version -> dir: %s", c.dirDesc())
			continue
		case 3:
			c.add(t, c.maxIdx()+1, true, false)
			r.Probe("checkpoint-added")
			r.Logf("add checkpoint -> %s", c.dirDesc())
			r.Sample("add checkpoint -> dir: %s", c.dirDesc())
			// What status says right now has to be what an apply would do right now (on a database
			// that was never migrated: start from this checkpoint).
			c.checkStatus(w.Observe(), "after the checkpoint was added")
			continue
		case 4:
			db, err := observe.Open(w.DB)
			if err != nil {
				simkit.Harnessf("open: %v", err)
			}
			if _, err := db.Exec("CREATE TABLE IF NOT EXISTS legacy (x int)"); err != nil {
				simkit.Harnessf("legacy: %v", err)
			}
			db.Close()
			r.Logf("legacy table created")
			r.Sample("a foreign table appears in the database")
			continue
		case 5:
			fixed := false
			for _, f := range c.files {
				for k, s := range f.Stmts {
					if s.Kind == KBad {
						f.Stmts[k] = MkStmt(fmt.Sprintf("f%d", f.Idx), k, KInsert)
						c.write(f)
						fixed = true
					}
				}
			}
			if fixed {
				w.Seal()
			}
			r.Logf("fix files=%v", fixed)
			r.Sample("operator fixes the failing statements and re-hashes")
			continue
		case 8: // squash: the files the newest checkpoint replaces are removed from the directory
			ck := -1
			for i, f := range c.files {
				if c.ck[f.Idx] {
					ck = i
				}
			}
			if ck <= 0 {
				continue
			}
			for _, f := range c.files[:ck] {
				os.Remove(filepath.Join(w.Mig, f.Name))
				delete(c.ck, f.Idx)
			}
			c.files = append([]*MFile(nil), c.files[ck:]...)
			w.Seal()
			r.Probe("files-squashed-into-checkpoint")
			r.Logf("squash -> %s", c.dirDesc())
			r.Sample("the files older than the newest checkpoint are deleted (squash) -> dir: %s", c.dirDesc())
			c.checkStatus(w.Observe(), "after squash")
			continue
		case 7: // the process dies inside `migrate apply --tx-mode none`: a partial revision without an error text
			points := []string{"exec:after-stmt-write", "exec:before-stmt", "exec:after-stmt", "exec:after-init-write"}
			p := points[t.Draw("crash-point", len(points))]
			occ := 1 + t.Draw("crash-occurrence", 3)
			order := []string{"linear", "linear-skip", "non-linear"}[t.Draw("order", 3)]
			res := w.Atlas([]string{fmt.Sprintf("VERIF_CRASH_AT=%s:%d", p, occ)}, "migrate", "apply", "--dir", w.DirURL(), "--url", w.URL(), "--tx-mode", "none", "--exec-order", order, "--allow-dirty")
			after := w.Observe()
			r.Logf("crash@%s#%d -> %s effects=%s revs=[%s]", p, occ, res.Class(), EffectVector(after, c.files), revsDesc(modelRevsOf(after)))
			r.Sample("`migrate apply --tx-mode none --exec-order %s --allow-dirty` is killed at %s (hit %d) -> %s; history [%s]", order, p, occ, res.Class(), revsDesc(modelRevsOf(after)))
			if res.Panicked {
				r.Fail(propC11, "panic", "panic/apply", "migrate apply panicked: %s", res.ErrLine())
				return
			}
			if res.Killed {
				r.Fired("process-killed-in-apply")
				w.ExpireLease()
				for _, rv := range after.Revs {
					if rv.Applied != rv.Total && rv.Error == "" {
						r.Probe("partial-revision-without-error")
					}
				}
			}
			continue
		case 6: // migrate set
			before := w.Observe()
			if len(c.files) == 0 {
				continue
			}
			v := c.files[t.Draw("set-version", len(c.files))].Version
			want := model.Set(c.modelFiles(), modelRevsOf(before), v)
			res := w.Atlas(nil, "migrate", "set", v, "--dir", w.DirURL(), "--url", w.URL())
			after := w.Observe()
			got := modelRevsOf(after)
			r.Logf("set %s -> %s revs=[%s] want=[%s]", strings.TrimLeft(v, "0"), res.Class(), revsDesc(got), revsDesc(want))
			r.Sample("`migrate set %s` -> %s; history [%s]", strings.TrimLeft(v, "0"), res.Class(), revsDesc(got))
			r.Fired("set-version")
			r.Nontrivial()
			if res.Panicked {
				r.Fail(propC11, "panic", "panic/set", "migrate set panicked: %s", res.ErrLine())
				return
			}
			if len(before.Revs) == 0 {
				// `migrate set` on a database without history: documented to sync revisions up to v as well.
				r.Probe("set-on-empty-history")
			}
			if res.Exit != 0 {
				r.Fail(propC11, "set-version", "set-failed", "`migrate set %s` failed: %s", v, res.ErrLine())
				return
			}
			if revsDesc(got) != revsDesc(want) {
				r.Fail(propC11, "set-version", "set-history-differs", "`migrate set %s`: history is [%s], documented [%s] (before [%s])", v, revsDesc(got), revsDesc(want), revsDesc(modelRevsOf(before)))
				return
			}
			// After set v, nothing up to and including v may be pending.
			dec := model.Pending(c.modelFiles(), want, model.Options{Order: "linear-skip", Clean: !userTables(after)})
			for _, f := range dec.Pending {
				if f.Version <= v && !f.Checkpoint {
					simkit.Harnessf("model: %s pending after set %s", f.Version, v)
				}
			}
			c.checkStatus(after, "after set")
			continue
		}
		// apply [n] with options.
		before := w.Observe()
		o := model.Options{Order: []string{"linear", "linear-skip", "non-linear"}[t.Draw("order", 3)], Clean: !userTables(before)}
		args := []string{"migrate", "apply"}
		n := t.Weighted("n", 2, 3, 2)
		if n > 0 {
			args = append(args, fmt.Sprint(n))
		}
		mode := []string{"file", "none"}[t.Draw("tx-mode", 2)]
		args = append(args, "--dir", w.DirURL(), "--url", w.URL(), "--exec-order", o.Order, "--tx-mode", mode)
		switch t.Weighted("first-run-flag", 4, 1, 1) {
		case 1:
			o.Baseline = c.files[t.Draw("baseline-file", len(c.files))].Version
			if t.Chance("baseline-missing", 1, 6) {
				o.Baseline = Version(99)
			}
			args = append(args, "--baseline", o.Baseline)
		case 2:
			o.AllowDirty = true
			args = append(args, "--allow-dirty")
		}
		revs := modelRevsOf(before)
		dec := model.Pending(c.modelFiles(), revs, o)
		cl := class(revs, o)
		sig := func(s string) string { return s + "/" + cl }
		// Expected executions.
		want := dec.Pending
		if n > 0 && n < len(want) {
			want = want[:n]
		}
		type step struct {
			f *MFile
			k int
		}
		var exec []step
		failed := false
		var partial *MFile
		for _, mf := range want {
			f := c.byVersion(mf.Version)
			from := 0
			if rv, ok := before.Rev(f.Version); ok {
				from = rv.Applied
			}
			var mine []step
			for k := from; k < len(f.Stmts); k++ {
				if f.Stmts[k].Kind == KBad {
					failed = true
					break
				}
				mine = append(mine, step{f, k})
			}
			if failed {
				if mode == "none" {
					exec = append(exec, mine...)
					partial = f
				}
				break
			}
			exec = append(exec, mine...)
		}
		res := w.Atlas(nil, args...)
		after := w.Observe()
		r.Logf("apply n=%d %s mode=%s baseline=%s allowDirty=%v clean=%v model=%s[%s] -> %s effects=%s revs=[%s]", n, o.Order, mode, strings.TrimLeft(o.Baseline, "0"), o.AllowDirty, o.Clean, dec.Err, c.names(dec.Pending), res.Class(), EffectVector(after, c.files), revsDesc(modelRevsOf(after)))
		r.Sample("`migrate apply%s --exec-order %s --tx-mode %s%s%s` (history [%s], clean=%v): documented %q pending [%s] -> %s (%s); effects %s history [%s]", countArg(n), o.Order, mode, optS(" --baseline ", strings.TrimLeft(o.Baseline, "0")), boolS(o.AllowDirty, " --allow-dirty"), revsDesc(revs), o.Clean, dec.Err, c.names(dec.Pending), res.Class(), res.ErrLine(), EffectVector(after, c.files), revsDesc(modelRevsOf(after)))
		r.Nontrivial()
		if dec.Err == "" {
			r.Probe("decision:run")
		} else {
			r.Probe("decision:" + dec.Err)
		}
		for _, x := range strings.Split(cl, ",") {
			if strings.Contains(x, "partial") {
				r.Probe("history:" + x)
			}
		}
		if res.Panicked {
			r.Fail(propC11, "panic", sig("panic/apply"), "migrate apply panicked: %s", res.ErrLine())
			return
		}
		// Effects delta.
		wantDelta := map[string]int{}
		for _, s := range exec {
			if s.f.Stmts[s.k].Kind == KInsert {
				wantDelta[s.f.Stmts[s.k].ID]++
			}
		}
		if dec.Err != "" {
			wantDelta = map[string]int{}
			exec = nil
		}
		for _, f := range c.files {
			for _, s := range f.Stmts {
				if s.Kind != KInsert {
					continue
				}
				d := Effect(after, s) - Effect(before, s)
				if d != wantDelta[s.ID] {
					var ids []string
					for _, e := range exec {
						ids = append(ids, e.f.Stmts[e.k].ID)
					}
					r.Fail(propC11, "pending-set", sig("wrong-files-run"), "documented decision %q pending [%s] => executions %v, but statement %s ran %d time(s) in this invocation; effects before %s after %s; history before [%s]; CLI: %s", dec.Err, c.names(dec.Pending), ids, s.ID, d, EffectVector(before, c.files), EffectVector(after, c.files), revsDesc(revs), res.ErrLine())
					return
				}
			}
		}
		// Exit status and error class.
		switch dec.Err {
		case model.OK:
			if failed != (res.Exit != 0) {
				r.Fail(propC11, "pending-set", sig("exit-status"), "documented decision is to run [%s] (failing statement reached=%v) but exit=%d: %s", c.names(dec.Pending), failed, res.Exit, res.ErrLine())
				return
			}
			if failed {
				r.Fired("stmt-failure")
			}
			if partial != nil {
				r.Probe("partial-revision-created")
			}
		case model.NoPending:
			if res.Exit != 0 {
				r.Fail(propC11, "error-class", sig("no-pending-failed"), "nothing is pending but `migrate apply` failed: %s", res.ErrLine())
				return
			}
		default:
			marker := map[string]string{model.NotClean: "not clean", model.BaselineNotFound: "baseline version", model.NonLinear: "out of order", model.MissingFile: "missing migration"}[dec.Err]
			if res.Exit == 0 || !strings.Contains(res.Stderr+res.Stdout, marker) {
				r.Fail(propC11, "error-class", sig("expected-"+dec.Err), "documented decision is %s but `migrate apply` -> %s: %s", dec.Err, res.Class(), res.ErrLine())
				return
			}
		}
		c.checkStatus(after, "after apply")
	}
}

func optS(prefix, v string) string {
	if v == "" {
		return ""
	}
	return prefix + v
}

func boolS(b bool, s string) string {
	if b {
		return s
	}
	return ""
}

// checkStatus compares `migrate status` with the documented decision (default order: linear).
func (c *c11w) checkStatus(d *observe.Dump, when string) {
	r, w := c.r, c.w
	if r.Failed() {
		return
	}
	revs := modelRevsOf(d)
	o := model.Options{Order: "linear", Clean: !userTables(d)}
	if !d.HasRevTbl {
		// Without a revision table status lists the files of a first run without consulting the database.
		o.Clean = true
	}
	dec := model.Pending(c.modelFiles(), revs, o)
	if dec.Err == model.NotClean || dec.Err == model.MissingFile {
		return
	}
	// A partially applied revision whose file was deleted cannot be reported on (nor resumed):
	// status refusing with "not found" is the documented missing-migration outcome.
	if n := len(revs); n > 0 && revs[n-1].Partial() && c.byVersion(revs[n-1].Version) == nil {
		r.Probe("partial-revision-whose-file-was-deleted")
		return
	}
	res := w.Atlas(nil, "migrate", "status", "--dir", w.DirURL(), "--url", w.URL(), "--format", "{{ json . }}")
	var st struct {
		Pending    []struct{ Version string }
		OutOfOrder []struct{ Version string }
		Next       string
		Status     string
	}
	if res.Panicked {
		r.Fail(propC11, "panic", "panic/status", "migrate status panicked: %s", res.ErrLine())
		return
	}
	if res.Exit != 0 || json.Unmarshal([]byte(res.Stdout), &st) != nil {
		r.Fail(propC11, "status", "status-failed", "%s: migrate status failed: %s %s", when, res.Class(), res.ErrLine())
		return
	}
	var got, want, goo, woo []string
	for _, p := range st.Pending {
		got = append(got, strings.TrimLeft(p.Version, "0"))
	}
	for _, p := range dec.Pending {
		want = append(want, strings.TrimLeft(p.Version, "0"))
	}
	for _, p := range st.OutOfOrder {
		goo = append(goo, strings.TrimLeft(p.Version, "0"))
	}
	for _, p := range dec.OutOfOrder {
		woo = append(woo, strings.TrimLeft(p.Version, "0"))
	}
	r.Logf("status pending=%v ooo=%v status=%s next=%s", got, goo, st.Status, strings.TrimLeft(st.Next, "0"))
	r.Fired("status")
	hist := "complete-history"
	for i, x := range revs {
		if x.Applied != x.Total {
			hist = "partial"
			if x.Resolved {
				hist = "resolved-partial"
			}
			if i < len(revs)-1 {
				hist = "non-last-" + hist
			}
		}
	}
	if fmt.Sprint(got) != fmt.Sprint(want) || fmt.Sprint(goo) != fmt.Sprint(woo) {
		r.Fail(propC11, "status", "status-pending-differs/"+hist, "%s: `migrate status` lists pending %v out-of-order %v; documented pending %v out-of-order %v (history [%s], dir %s)", when, got, goo, want, woo, revsDesc(revs), c.dirDesc())
		return
	}
	wantStatus, wantNext := "PENDING", ""
	if len(dec.Pending) == 0 && dec.Err != model.NonLinear {
		wantStatus, wantNext = "OK", "Already at latest version"
	} else if len(dec.Pending) > 0 {
		wantNext = dec.Pending[0].Version
	}
	if st.Status != wantStatus || (dec.Err != model.NonLinear && st.Next != wantNext) {
		r.Fail(propC11, "status", "status-summary-differs/"+hist, "%s: status=%s next=%s, documented %s / %s", when, st.Status, st.Next, wantStatus, wantNext)
	}
}
