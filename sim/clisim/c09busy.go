package clisim

import (
	"bytes"
	"context"
	"fmt"
	"os"
	"os/exec"
	"path/filepath"
	"strings"
	"sync"
	"syscall"
	"time"

	"verif/sim/observe"
	"verif/sim/simkit"
)

// atlasPaused runs the CLI with VERIF_PAUSE_AT=<point>@<n>@<dir>: the real process parks at the
// n-th hit of the point; act runs while it is parked (the adversary acts *inside* the invocation),
// then the process is released. reached reports whether the point was hit. Parking a real process
// at an intercepted point and releasing it from the scheduler replays exactly.
func (w *World) atlasPaused(point string, n int, act func(), args ...string) (res CmdResult, reached bool) {
	w.ncalls++
	w.R.Step()
	dir := filepath.Join(w.Root, fmt.Sprintf("pause%d", w.ncalls))
	if err := os.MkdirAll(dir, 0o755); err != nil {
		simkit.Harnessf("pause dir: %v", err)
	}
	for _, f := range []string{"hit", "go"} {
		if err := syscall.Mkfifo(filepath.Join(dir, f), 0o600); err != nil {
			simkit.Harnessf("mkfifo: %v", err)
		}
	}
	ctx, cancel := context.WithTimeout(context.Background(), 120*time.Second)
	defer cancel()
	cmd := exec.CommandContext(ctx, w.Bin, args...)
	cmd.Dir = w.Root
	cmd.Env = []string{
		"ATLAS_NO_UPGRADE_SUGGESTIONS=1", "ATLAS_NO_UPDATE_NOTIFIER=1",
		"HOME=" + w.Home, "TMPDIR=" + w.Tmp, "PATH=/usr/bin:/bin", "NO_COLOR=1", w.now(),
		fmt.Sprintf("VERIF_PAUSE_AT=%s@%d@%s", point, n, dir),
	}
	var so, se bytes.Buffer
	cmd.Stdout, cmd.Stderr = &so, &se
	if err := cmd.Start(); err != nil {
		simkit.Harnessf("start: %v", err)
	}
	done := make(chan error, 1)
	go func() { done <- cmd.Wait() }()
	hit := make(chan bool, 1)
	go func() {
		// Opening the FIFO for reading blocks until the process opens it for writing (the hit).
		f, err := os.OpenFile(filepath.Join(dir, "hit"), os.O_RDONLY, 0)
		if err != nil {
			hit <- false
			return
		}
		buf := make([]byte, 64)
		f.Read(buf)
		f.Close()
		hit <- true
	}()
	var werr error
	select {
	case <-hit:
		reached = true
		act()
		// Release the process.
		g, err := os.OpenFile(filepath.Join(dir, "go"), os.O_WRONLY, 0)
		if err != nil {
			simkit.Harnessf("release: %v", err)
		}
		g.Write([]byte("go\n"))
		g.Close()
		werr = <-done
	case werr = <-done:
		// The point was never reached: unblock the reader goroutine.
		if f, err := os.OpenFile(filepath.Join(dir, "hit"), os.O_WRONLY|syscall.O_NONBLOCK, 0); err == nil {
			f.Close()
		}
	}
	if ctx.Err() != nil {
		simkit.Harnessf("atlas %v: watchdog timeout while paused at %s", args, point)
	}
	res = CmdResult{Stdout: so.String(), Stderr: se.String()}
	if ee, ok := werr.(*exec.ExitError); ok {
		res.Exit = ee.ExitCode()
		if ws, ok := ee.Sys().(syscall.WaitStatus); ok && ws.Signaled() {
			res.Killed = ws.Signal() == syscall.SIGKILL
			res.Exit = 128 + int(ws.Signal())
		}
	} else if werr != nil {
		simkit.Harnessf("atlas %v: %v", args, werr)
	}
	if res.Exit == 2 && strings.Contains(res.Stderr, "goroutine ") && strings.Contains(res.Stderr, "panic:") {
		res.Panicked = true
	}
	os.RemoveAll(dir)
	return res, reached
}

// lockedBuf is a buffer the harness may read while the child process still writes to it.
type lockedBuf struct {
	mu sync.Mutex
	b  bytes.Buffer
}

func (l *lockedBuf) Write(p []byte) (int, error) {
	l.mu.Lock()
	defer l.mu.Unlock()
	return l.b.Write(p)
}

func (l *lockedBuf) String() string {
	l.mu.Lock()
	defer l.mu.Unlock()
	return l.b.String()
}

// atlasInterrupted runs the CLI, parks it at the n-th hit of point, sends it SIGINT (what Ctrl-C
// does), waits until the process has acknowledged the interrupt (it cancels its context first and
// prints a line afterwards) and only then releases it: the code that runs next runs under a
// cancelled context, at a position the tape chose. reached reports whether the point was hit.
func (w *World) atlasInterrupted(point string, n int, args ...string) (res CmdResult, reached bool) {
	w.ncalls++
	w.R.Step()
	dir := filepath.Join(w.Root, fmt.Sprintf("pause%d", w.ncalls))
	if err := os.MkdirAll(dir, 0o755); err != nil {
		simkit.Harnessf("pause dir: %v", err)
	}
	for _, f := range []string{"hit", "go"} {
		if err := syscall.Mkfifo(filepath.Join(dir, f), 0o600); err != nil {
			simkit.Harnessf("mkfifo: %v", err)
		}
	}
	ctx, cancel := context.WithTimeout(context.Background(), 120*time.Second)
	defer cancel()
	cmd := exec.CommandContext(ctx, w.Bin, args...)
	cmd.Dir = w.Root
	cmd.Env = []string{
		"ATLAS_NO_UPGRADE_SUGGESTIONS=1", "ATLAS_NO_UPDATE_NOTIFIER=1",
		"HOME=" + w.Home, "TMPDIR=" + w.Tmp, "PATH=/usr/bin:/bin", "NO_COLOR=1", w.now(),
		fmt.Sprintf("VERIF_PAUSE_AT=%s@%d@%s", point, n, dir),
	}
	var so, se lockedBuf
	cmd.Stdout, cmd.Stderr = &so, &se
	if err := cmd.Start(); err != nil {
		simkit.Harnessf("start: %v", err)
	}
	done := make(chan error, 1)
	go func() { done <- cmd.Wait() }()
	hit := make(chan bool, 1)
	go func() {
		f, err := os.OpenFile(filepath.Join(dir, "hit"), os.O_RDONLY, 0)
		if err != nil {
			hit <- false
			return
		}
		buf := make([]byte, 64)
		f.Read(buf)
		f.Close()
		hit <- true
	}()
	var werr error
	select {
	case <-hit:
		reached = true
		// The CLI installs its signal handler on a goroutine started first thing in main; the parked
		// process gets a moment so that this has certainly happened (a SIGINT before that would kill
		// it the default way, which is not the scenario). Should it die all the same, the run is
		// environment trouble and is repeated from its seed, never judged.
		time.Sleep(50 * time.Millisecond)
		if err := cmd.Process.Signal(syscall.SIGINT); err != nil {
			simkit.Harnessf("signal: %v", err)
		}
		for i := 0; !strings.Contains(so.String()+se.String(), "interrupt received"); i++ {
			select {
			case <-done:
				simkit.Harnessf("the process exited before it acknowledged the interrupt: atlas %v", args)
			default:
			}
			if i > 4000 {
				simkit.Harnessf("the interrupt was not acknowledged: atlas %v", args)
			}
			time.Sleep(5 * time.Millisecond)
		}
		g, err := os.OpenFile(filepath.Join(dir, "go"), os.O_WRONLY, 0)
		if err != nil {
			simkit.Harnessf("release: %v", err)
		}
		g.Write([]byte("go\n"))
		g.Close()
		werr = <-done
	case werr = <-done:
		if f, err := os.OpenFile(filepath.Join(dir, "hit"), os.O_WRONLY|syscall.O_NONBLOCK, 0); err == nil {
			f.Close()
		}
	}
	if ctx.Err() != nil {
		simkit.Harnessf("watchdog timeout: atlas %v while interrupted at %s", args, point)
	}
	res = CmdResult{Stdout: so.String(), Stderr: se.String()}
	if ee, ok := werr.(*exec.ExitError); ok {
		res.Exit = ee.ExitCode()
		if ws, ok := ee.Sys().(syscall.WaitStatus); ok && ws.Signaled() {
			res.Killed = ws.Signal() == syscall.SIGKILL
			res.Exit = 128 + int(ws.Signal())
		}
	} else if werr != nil {
		simkit.Harnessf("atlas %v: %v", args, werr)
	}
	if res.Exit == 2 && strings.Contains(res.Stderr, "goroutine ") && strings.Contains(res.Stderr, "panic:") {
		res.Panicked = true
	}
	os.RemoveAll(dir)
	return res, reached
}

// BusyPoints are the instants at which the adversary takes the database's write lock.
var BusyPoints = []string{"exec:before-init-write", "exec:before-stmt", "exec:after-stmt", "exec:before-final-write"}

// C09Busy — the real CLI in --tx-mode none with a bookkeeping write (or a statement) that fails
// because another connection holds the database's write lock at that instant.
func C09Busy(r *simkit.Run) {
	const prop = "C09"
	t := r.T
	w := NewWorld(r)
	files := GenDir(t, 1, 3, 4, false)
	w.WriteDir(files)
	point := BusyPoints[int(r.Env.RunIndex)%len(BusyPoints)]
	total := 0
	for _, f := range files {
		total += len(f.Stmts)
	}
	max := total
	if point == "exec:before-init-write" || point == "exec:before-final-write" {
		max = len(files)
	}
	occ := 1 + t.Draw("occurrence", max)
	r.Sample("tx-mode none, dir %s; another connection takes the write lock while `migrate apply` is parked at %s (hit %d)", Describe(files), point, occ)
	args := []string{"migrate", "apply", "--dir", w.DirURL(), "--url", w.URL(), "--tx-mode", "none"}
	var lock *observe.Dump
	_ = lock
	db, err := observe.Open(w.DB)
	if err != nil {
		simkit.Harnessf("open: %v", err)
	}
	defer db.Close()
	locked := false
	res, reached := w.atlasPaused(point, occ, func() {
		if _, err := db.Exec("BEGIN IMMEDIATE"); err != nil {
			simkit.Harnessf("adversary lock: %v", err)
		}
		locked = true
	}, args...)
	if locked {
		if _, err := db.Exec("ROLLBACK"); err != nil {
			simkit.Harnessf("adversary unlock: %v", err)
		}
	}
	d := w.Observe()
	r.Logf("busy@%s#%d reached=%v -> %s effects=%s revs=[%s]", point, occ, reached, res.Class(), EffectVector(d, files), d.RevDigest())
	r.Sample("-> %s (%s); effects %s revisions [%s]", res.Class(), firstN(res.ErrLine(), 120), EffectVector(d, files), d.RevDigest())
	r.Nontrivial()
	if res.Panicked {
		r.Fail(prop, "panic", "cli-panic/busy", "migrate apply panicked: %s", res.ErrLine())
		return
	}
	c := &c10{r: r, w: w, files: files, mode: "none", allowedDup: map[string]int{}}
	if !reached {
		r.Probe("busy-point-not-reached")
		if res.Exit != 0 {
			r.Fail(prop, "liveness", "clean-apply-failed/cli", "`migrate apply` without a reached pause point failed: %s", res.ErrLine())
		}
		return
	}
	r.Fired("write-lock-held-at/" + point)
	if res.Exit == 0 {
		r.Fail(prop, "stop", "error-swallowed/cli/"+point, "a write of `migrate apply` hit a locked database at %s but the command exited 0", point)
		return
	}
	if !strings.Contains(res.Stderr+res.Stdout, "locked") {
		r.Fail(prop, "stop", "unexpected-error/cli/"+point, "expected a 'database is locked' failure at %s, got: %s", point, res.ErrLine())
		return
	}
	// The history never claims more than was executed; at most one statement is unrecorded.
	for i, f := range files {
		lead, prefixOK := c.lead(d, f)
		rev, hasRev := d.Rev(f.Version)
		switch {
		case !prefixOK:
			r.Fail(prop, "order", "hole-in-file/cli", "effects of %s are not a prefix: %s", f.Name, EffectVector(d, files))
		case hasRev && rev.Applied > lead:
			r.Fail(prop, "over-claim", "over-claim/cli/"+point, "revision %s records %d applied statements, %d effects are in the database", f.Version, rev.Applied, lead)
		case lead > 0 && !hasRev:
			r.Fail(prop, "over-claim", "effects-without-revision/cli", "%s has effects but no revision", f.Name)
		case hasRev && lead > rev.Applied+1:
			r.Fail(prop, "multiplicity", "more-than-one-unrecorded/cli", "%s has %d effects, %d recorded", f.Name, lead, rev.Applied)
		case (lead > 0 || hasRev) && i > 0 && !c.complete(d, files[i-1]):
			r.Fail(prop, "order", "file-before-predecessor/cli", "%s started before its predecessor completed", f.Name)
		}
		if r.Failed() {
			return
		}
		if hasRev && lead == rev.Applied+1 {
			c.allowedDup[f.Stmts[rev.Applied].ID]++
			r.Probe("statement-executed-but-bookkeeping-write-failed")
		}
	}
	// Faults stop: a clean run completes, repeating at most the statement whose bookkeeping failed.
	res = w.Atlas(nil, args...)
	d = w.Observe()
	r.Logf("clean apply -> %s effects=%s revs=[%s]", res.Class(), EffectVector(d, files), d.RevDigest())
	r.Sample("clean `migrate apply --tx-mode none` -> %s; effects %s revisions [%s]", res.Class(), EffectVector(d, files), d.RevDigest())
	if res.Exit != 0 {
		r.Fail(prop, "liveness", "rerun-does-not-complete/cli/"+point, "after the failed write a clean `migrate apply` does not complete: %s", res.ErrLine())
		return
	}
	for _, f := range files {
		if !c.complete(d, f) {
			r.Fail(prop, "liveness", "incomplete-at-end/cli", "%s is not complete at the end: effects %s revisions [%s]", f.Name, EffectVector(d, files), d.RevDigest())
			return
		}
		for _, s := range f.Stmts {
			n := Effect(d, s)
			if n > 1+c.allowedDup[s.ID] {
				r.Fail(prop, "multiplicity", "statement-repeated/cli/"+point, "statement %s took effect %d times; only %v lost their bookkeeping write", s.ID, n, keys(c.allowedDup))
				return
			}
			if n == 2 {
				r.Probe("statement-executed-twice-after-failed-bookkeeping")
			}
		}
	}
}
