package clisim

import (
	"encoding/json"
	"fmt"
	"os"
	"path/filepath"
	"sort"
	"strings"

	"ariga.io/atlas/sql/schema"
	"ariga.io/atlas/sql/sqlite"

	"verif/sim/simkit"
)

const propC18 = "C18"

// lTable is the reference model's view of a table: which columns exist and which are virtual.
type lTable struct {
	Name string
	Cols []lCol
}

type lCol struct {
	Name    string
	Type    string
	Virtual bool
}

func (t *lTable) has(c string) bool {
	for _, x := range t.Cols {
		if x.Name == c {
			return true
		}
	}
	return false
}

func (t *lTable) createSQL(name string) string {
	var defs []string
	for _, c := range t.Cols {
		switch {
		case c.Name == "id":
			defs = append(defs, "`id` integer NOT NULL")
		case c.Virtual:
			defs = append(defs, fmt.Sprintf("`%s` integer AS (`id` + 1) VIRTUAL", c.Name))
		default:
			defs = append(defs, fmt.Sprintf("`%s` %s NULL", c.Name, c.Type))
		}
	}
	defs = append(defs, "PRIMARY KEY (`id`)")
	return fmt.Sprintf("CREATE TABLE `%s` (%s)", name, strings.Join(defs, ", "))
}

func lintHCL(tables map[string]*lTable) string {
	s := schema.New("main")
	var names []string
	for n := range tables {
		names = append(names, n)
	}
	sort.Strings(names)
	for _, n := range names {
		t := schema.NewTable(n)
		for _, c := range tables[n].Cols {
			switch {
			case c.Name == "id":
				t.AddColumns(schema.NewIntColumn("id", "integer"))
			case c.Virtual:
				col := schema.NewNullIntColumn(c.Name, "integer")
				col.SetGeneratedExpr(&schema.GeneratedExpr{Expr: "`id` + 1", Type: "VIRTUAL"})
				t.AddColumns(col)
			case c.Type == "text":
				t.AddColumns(schema.NewNullStringColumn(c.Name, "text"))
			default:
				t.AddColumns(schema.NewNullIntColumn(c.Name, "integer"))
			}
		}
		t.SetPrimaryKey(schema.NewPrimaryKey(t.Columns[0]))
		s.AddTables(t)
	}
	b, err := sqlite.MarshalHCL(s)
	if err != nil {
		simkit.Harnessf("MarshalHCL: %v", err)
	}
	return string(b)
}

func cloneTables(m map[string]*lTable) map[string]*lTable {
	out := map[string]*lTable{}
	for n, t := range m {
		c := *t
		c.Cols = append([]lCol(nil), t.Cols...)
		out[n] = &c
	}
	return out
}

// expectation for one file.
type lintExpect struct {
	code       string // DS102 | DS103
	key        string // resource: "t" or "t.c"
	what       string
	start, end int  // byte range of the causing statement (group)
	anywhere   bool // position taken from the generated file (migrate diff): any statement
}

type lintFile struct {
	name   string
	expect []lintExpect
	desc   []string
	// events lists, per resource ("t" or "t.c"), what this file does to it, in order ("add" / "drop"),
	// prefixed by whether the resource existed before the file; drops records where each drop is.
	events map[string][]string
	drops  []struct {
		start, end int
		key        string
	}
	nolint [][2]int // byte ranges of drops acknowledged with a nolint directive
}

func (f *lintFile) seq(key string) string {
	if len(f.events[key]) == 0 {
		return "unknown"
	}
	return strings.Join(f.events[key], "-")
}

// C18 — lint flags every destructive migration and no purely additive one.
func C18(r *simkit.Run) {
	t := r.T
	w := NewWorld(r)
	tables := map[string]*lTable{}
	seq := 0
	next := func() int { seq++; return seq }
	var files []*lintFile
	steps := t.Range("files", 2, 6)
	pickTable := func(m map[string]*lTable) *lTable {
		var ns []string
		for n := range m {
			ns = append(ns, n)
		}
		sort.Strings(ns)
		if len(ns) == 0 {
			return nil
		}
		return m[ns[t.Draw("table", len(ns))]]
	}
	newTable := func() *lTable {
		tb := &lTable{Name: fmt.Sprintf("t%d", next()), Cols: []lCol{{Name: "id", Type: "integer"}}}
		for i, n := 0, t.Range("cols", 1, 3); i < n; i++ {
			tb.Cols = append(tb.Cols, lCol{Name: fmt.Sprintf("c%d", next()), Type: []string{"text", "integer"}[t.Draw("col-type", 2)]})
		}
		if t.Chance("virtual-col", 1, 3) {
			// Anywhere after id: a virtual column declared before a regular one is visited first
			// when both are dropped in one step.
			g := lCol{Name: fmt.Sprintf("g%d", next()), Type: "integer", Virtual: true}
			k := 1 + t.Draw("virtual-col-position", len(tb.Cols))
			tb.Cols = append(tb.Cols[:k:k], append([]lCol{g}, tb.Cols[k:]...)...)
		}
		return tb
	}
	for f := 1; f <= steps; f++ {
		before := cloneTables(tables) // what existed before this file
		lf := &lintFile{events: map[string][]string{}}
		ev := func(key, what string) {
			if len(lf.events[key]) == 0 {
				pre := "new"
				if i := strings.IndexByte(key, '.'); i >= 0 {
					if bt, ok := before[key[:i]]; ok && bt.has(key[i+1:]) {
						pre = "pre"
					}
				} else if _, ok := before[key]; ok {
					pre = "pre"
				}
				lf.events[key] = append(lf.events[key], pre+":"+what)
				return
			}
			lf.events[key] = append(lf.events[key], what)
		}
		// A resource takes part in at most three events per file; an operation on a resource that
		// already has events is allowed only for the plain forms (so that sequences stay legible).
		busy := func(keys ...string) bool {
			for _, k := range keys {
				if len(lf.events[k]) > 0 {
					return true
				}
			}
			return false
		}
		room := func(key string, n int) bool { return len(lf.events[key])+n <= 3 }
		tableKeys := func(tb *lTable) []string {
			ks := []string{tb.Name}
			for _, c := range tb.Cols {
				ks = append(ks, tb.Name+"."+c.Name)
			}
			return ks
		}
		dropAt := func(s, e int, key string) {
			lf.drops = append(lf.drops, struct {
				start, end int
				key        string
			}{s, e, key})
		}
		version := Version(f)
		if t.Chance("derived-by-migrate-diff", 1, 3) && f > 1 {
			// Let `migrate diff` write the file for one schema edit.
			want := cloneTables(tables)
			var exp []lintExpect
			tb := pickTable(want)
			switch op := t.Draw("diff-edit", 4); {
			case op == 0 || tb == nil:
				nt := newTable()
				want[nt.Name] = nt
				lf.desc = append(lf.desc, "diff:add-table "+nt.Name)
			case op == 1:
				delete(want, tb.Name)
				exp = append(exp, lintExpect{code: "DS102", what: "table " + tb.Name, anywhere: true})
				lf.desc = append(lf.desc, "diff:drop-table "+tb.Name)
			case op == 2:
				tb.Cols = append(tb.Cols, lCol{Name: fmt.Sprintf("c%d", next()), Type: "text"})
				lf.desc = append(lf.desc, "diff:add-column "+tb.Name)
			default:
				if len(tb.Cols) < 2 {
					continue
				}
				// One or two columns in the same step; the rebuild is one statement group, reported once.
				ndrop := 1
				if len(tb.Cols) >= 3 && t.Chance("diff-drops-two-columns", 1, 2) {
					ndrop = 2
				}
				var dropped []lCol
				for j := 0; j < ndrop; j++ {
					k := 1 + t.Draw("drop-col", len(tb.Cols)-1)
					dropped = append(dropped, tb.Cols[k])
					tb.Cols = append(append([]lCol(nil), tb.Cols[:k]...), tb.Cols[k+1:]...)
				}
				var regular, virtual []string
				for _, c := range dropped {
					if c.Virtual {
						virtual = append(virtual, c.Name)
						r.Probe("virtual-column-dropped")
					} else {
						regular = append(regular, c.Name)
					}
				}
				if len(regular) > 0 {
					exp = append(exp, lintExpect{code: "DS103", what: "column(s) " + tb.Name + "." + strings.Join(regular, ","), anywhere: true})
				}
				if len(regular) > 0 && len(virtual) > 0 {
					r.Probe("virtual-and-regular-column-dropped-together")
				}
				lf.desc = append(lf.desc, fmt.Sprintf("diff:drop-columns %s regular=%v virtual=%v (SQLite rebuild)", tb.Name, regular, virtual))
			}
			// Sometimes the same diff also drops another table: the plan then rebuilds one table and
			// drops the next one right after the rebuild's RENAME.
			if len(want) > 1 && t.Chance("diff-also-drops-a-table", 1, 3) {
				var ns []string
				for n := range want {
					if tb == nil || n != tb.Name {
						ns = append(ns, n)
					}
				}
				sort.Strings(ns)
				if len(ns) > 0 {
					victim := ns[t.Draw("second-victim", len(ns))]
					if _, existed := tables[victim]; existed {
						delete(want, victim)
						exp = append(exp, lintExpect{code: "DS102", key: victim, what: "table " + victim, anywhere: true})
						lf.desc = append(lf.desc, "diff:also-drop-table "+victim)
						r.Probe("diff-with-two-edits")
					}
				}
			}
			hp := filepath.Join(w.Root, "desired.hcl")
			os.WriteFile(hp, []byte(lintHCL(want)), 0o644)
			beforeDir := w.DirSnapshot()
			res := w.Atlas(nil, "migrate", "diff", fmt.Sprintf("d%d", f), "--dir", w.DirURL(), "--to", "file://"+hp, "--dev-url", w.DevURL())
			if res.Exit != 0 {
				r.Fail(propC18, "setup", "migrate-diff-failed", "migrate diff failed: %s", res.ErrLine())
				return
			}
			after := w.DirSnapshot()
			created := ""
			for n := range after {
				if _, ok := beforeDir[n]; !ok && strings.HasSuffix(n, ".sql") {
					created = n
				}
			}
			if created == "" {
				continue // no change
			}
			// Give the file a deterministic version (what a user does with rename + migrate hash).
			nn := fmt.Sprintf("%s_d%d.sql", version, f)
			os.Rename(filepath.Join(w.Mig, created), filepath.Join(w.Mig, nn))
			w.Seal()
			lf.name, lf.expect = nn, exp
			tables = want
			r.Probe("file-derived-by-migrate-diff")
			if strings.Contains(after[created], "RENAME TO") {
				r.Probe("diff-generated-rebuild")
			}
		} else {
			// Hand-written SQL: a few operations.
			var body strings.Builder
			created := map[string]bool{}
			// Some files set their own statement delimiter in a directive on the first line: positions
			// are positions in the file, directive included.
			delim := ";"
			if t.Chance("delimiter-directive", 1, 5) {
				delim = ";;"
				body.WriteString("-- atlas:delimiter ;;\n\n")
				r.Probe("file-with-delimiter-directive")
			}
			// Or a file-level nolint directive that names one code or class: it acknowledges the
			// diagnostics of that code in this file, and nothing else.
			fileNolint := ""
			if delim == ";" && t.Chance("file-level-nolint-with-a-code", 1, 6) {
				fileNolint = []string{"DS103", "DS102", "data_depend", "BC102"}[t.Draw("file-nolint-arg", 4)]
				body.WriteString("-- atlas:nolint " + fileNolint + "\n\n")
				lf.desc = append(lf.desc, "file-level atlas:nolint "+fileNolint)
				r.Probe("file-level-nolint-with-a-code")
			}
			headerLen := body.Len()
			emit := func(stmts ...string) (start, end int) {
				start = body.Len()
				for _, s := range stmts {
					body.WriteString(s)
					body.WriteString(delim + "\n")
				}
				return start, body.Len()
			}
			nops := t.Range("ops", 1, 3)
			for i := 0; i < nops; i++ {
				tb := pickTable(tables)
				op := t.Weighted("op", 3, 2, 2, 2, 2, 2, 1, 1, 1, 1, 1, 1, 1, 1)
				if tb == nil {
					op = 0
				}
				switch op {
				case 0:
					nt := newTable()
					tables[nt.Name] = nt
					created[nt.Name] = true
					emit(nt.createSQL(nt.Name))
					for _, k := range tableKeys(nt) {
						ev(k, "add")
					}
					lf.desc = append(lf.desc, "create-table "+nt.Name)
				case 1:
					c := lCol{Name: fmt.Sprintf("c%d", next()), Type: "text"}
					tb.Cols = append(tb.Cols, c)
					emit(fmt.Sprintf("ALTER TABLE `%s` ADD COLUMN `%s` text NULL", tb.Name, c.Name))
					ev(tb.Name+"."+c.Name, "add")
					lf.desc = append(lf.desc, "add-column "+tb.Name+"."+c.Name)
				case 2:
					var cs []lCol
					for _, c := range tb.Cols {
						if !c.Virtual && c.Name != "id" {
							cs = append(cs, c)
						}
					}
					if len(cs) == 0 {
						continue
					}
					c := cs[t.Draw("idx-col", len(cs))]
					emit(fmt.Sprintf("CREATE INDEX `i%d` ON `%s` (`%s`)", next(), tb.Name, c.Name))
					lf.desc = append(lf.desc, "create-index "+tb.Name+"."+c.Name)
				case 3: // DROP TABLE
					if !room(tb.Name, 1) {
						continue
					}
					// Sometimes the author acknowledges this drop with a statement-level nolint directive: it is
					// then not reported, and the file still fails if another, unacknowledged drop is in it.
					nolint := t.Chance("nolint-on-drop-table", 1, 6)
					text := fmt.Sprintf("DROP TABLE `%s`", tb.Name)
					if nolint {
						form := []string{"DS102", "destructive", ""}[t.Draw("nolint-form", 3)]
						// (Under a file-level directive that names a code, a bare statement-level directive is
						// not honoured by the unchanged tree — the two rule lists are merged and "everything" is
						// recognised only when it stands alone. Acknowledged drops are not C18's subject: the
						// combination is left out, see DESIGN §11.4.)
						if form == "" && fileNolint != "" {
							form = "DS102"
						}
						text = strings.TrimSpace("-- atlas:nolint "+form) + "\n" + text
					}
					s, e := emit(text)
					pre := len(lf.events[tb.Name]) == 0 || strings.HasPrefix(lf.events[tb.Name][0], "pre:")
					_, existed := before[tb.Name]
					// The instance being dropped existed before the file iff the table did and was not
					// already dropped (and re-created) earlier in this file.
					preInstance := existed && pre && !contains(lf.events[tb.Name], "drop")
					ev(tb.Name, "drop")
					dropAt(s, e, tb.Name)
					if preInstance && nolint {
						lf.nolint = append(lf.nolint, [2]int{s, e})
						lf.desc = append(lf.desc, "DROP TABLE "+tb.Name+" (acknowledged with atlas:nolint)")
						r.Probe("drop-acknowledged-with-nolint")
					} else if preInstance {
						lf.expect = append(lf.expect, lintExpect{code: "DS102", key: tb.Name, what: "table " + tb.Name, start: s, end: e})
						lf.desc = append(lf.desc, "DROP TABLE "+tb.Name)
					} else {
						lf.desc = append(lf.desc, "drop temporary table "+tb.Name+" created in this file")
						r.Probe("temporary-table-created-and-dropped")
					}
					delete(tables, tb.Name)
				case 4: // ALTER TABLE DROP COLUMN (no index on the column: SQLite would refuse)
					k := -1
					for i := len(tb.Cols) - 1; i >= 1; i-- {
						if strings.HasPrefix(tb.Cols[i].Name, "c") || tb.Cols[i].Virtual {
							k = i
							break
						}
					}
					if k < 0 || indexed(body.String(), files, w, tb.Name, tb.Cols[k].Name) || !room(tb.Name+"."+tb.Cols[k].Name, 1) {
						continue
					}
					c := tb.Cols[k]
					ck := tb.Name + "." + c.Name
					s, e := emit(fmt.Sprintf("ALTER TABLE `%s` DROP COLUMN `%s`", tb.Name, c.Name))
					bt, existed := before[tb.Name]
					preInstance := existed && bt.has(c.Name) && !contains(lf.events[ck], "drop") && !contains(lf.events[tb.Name], "drop")
					ev(ck, "drop")
					dropAt(s, e, ck)
					if !c.Virtual && preInstance {
						lf.expect = append(lf.expect, lintExpect{code: "DS103", key: ck, what: "column " + tb.Name + "." + c.Name, start: s, end: e})
					}
					if c.Virtual {
						r.Probe("virtual-column-dropped")
					}
					tb.Cols = append(append([]lCol(nil), tb.Cols[:k]...), tb.Cols[k+1:]...)
					lf.desc = append(lf.desc, fmt.Sprintf("ALTER TABLE DROP COLUMN %s.%s virtual=%v", tb.Name, c.Name, c.Virtual))
				case 5: // rebuild that omits a column
					var cs []int
					for i, c := range tb.Cols {
						if i > 0 && !c.Virtual {
							cs = append(cs, i)
						}
					}
					if len(cs) == 0 || busy(tableKeys(tb)...) {
						continue
					}
					k := cs[t.Draw("omit-col", len(cs))]
					c := tb.Cols[k]
					omit := map[int]bool{k: true}
					// Sometimes a second column (virtual or not) is omitted by the same rebuild.
					if len(tb.Cols) >= 3 && t.Chance("omit-second-col", 1, 2) {
						k2 := 1 + t.Draw("omit-col-2", len(tb.Cols)-1)
						if k2 != k {
							omit[k2] = true
							if tb.Cols[k2].Virtual {
								r.Probe("virtual-and-regular-column-dropped-together")
							}
						}
					}
					nt := &lTable{Name: tb.Name}
					var omitted []string
					for i, x := range tb.Cols {
						if omit[i] {
							ev(tb.Name+"."+x.Name, "drop")
							omitted = append(omitted, x.Name)
							continue
						}
						nt.Cols = append(nt.Cols, x)
					}
					var keep []string
					for _, x := range nt.Cols {
						if !x.Virtual {
							keep = append(keep, "`"+x.Name+"`")
						}
					}
					group := []string{
						nt.createSQL("new_" + tb.Name),
						fmt.Sprintf("INSERT INTO `new_%s` (%s) SELECT %s FROM `%s`", tb.Name, strings.Join(keep, ", "), strings.Join(keep, ", "), tb.Name),
						fmt.Sprintf("DROP TABLE `%s`", tb.Name),
						fmt.Sprintf("ALTER TABLE `new_%s` RENAME TO `%s`", tb.Name, tb.Name),
					}
					// The PRAGMA frame is optional: without it the next operation's statement follows the
					// RENAME directly (as in a plan that rebuilds one table and then drops another).
					if t.Chance("pragma-frame", 1, 2) {
						group = append(append([]string{"PRAGMA foreign_keys = off"}, group...), "PRAGMA foreign_keys = on")
					} else {
						r.Probe("rebuild-without-pragma-frame")
					}
					s, e := emit(group...)
					bt, existed := before[tb.Name]
					for _, n := range omitted {
						dropAt(s, e, tb.Name+"."+n)
					}
					// One diagnostic per rebuild, whatever the number of non-virtual columns it omits.
					if existed && bt.has(c.Name) {
						lf.expect = append(lf.expect, lintExpect{code: "DS103", key: tb.Name + "." + c.Name, what: "column " + tb.Name + "." + c.Name, start: s, end: e})
					}
					tables[tb.Name] = nt
					lf.desc = append(lf.desc, fmt.Sprintf("rebuild of %s omitting %v", tb.Name, omitted))
					r.Probe("hand-written-rebuild-omitting-column")
				case 6: // additive rebuild (adds a column)
					if busy(tableKeys(tb)...) {
						continue
					}
					ev(tb.Name, "rebuild")
					ev(tb.Name+"."+fmt.Sprintf("c%d", seq+1), "add")
					nt := &lTable{Name: tb.Name, Cols: append(append([]lCol(nil), tb.Cols...), lCol{Name: fmt.Sprintf("c%d", next()), Type: "integer"})}
					var keep []string
					for _, x := range tb.Cols {
						if !x.Virtual {
							keep = append(keep, "`"+x.Name+"`")
						}
					}
					group := []string{
						nt.createSQL("new_" + tb.Name),
						fmt.Sprintf("INSERT INTO `new_%s` (%s) SELECT %s FROM `%s`", tb.Name, strings.Join(keep, ", "), strings.Join(keep, ", "), tb.Name),
						fmt.Sprintf("DROP TABLE `%s`", tb.Name),
						fmt.Sprintf("ALTER TABLE `new_%s` RENAME TO `%s`", tb.Name, tb.Name),
					}
					if t.Chance("pragma-frame", 1, 2) {
						group = append(append([]string{"PRAGMA foreign_keys = off"}, group...), "PRAGMA foreign_keys = on")
					} else {
						r.Probe("rebuild-without-pragma-frame")
					}
					emit(group...)
					tables[tb.Name] = nt
					lf.desc = append(lf.desc, "additive rebuild of "+tb.Name)
					r.Probe("additive-rebuild")
				case 8: // drop an existing column and add a column of the same name again (e.g. to change its type)
					k := -1
					for i := len(tb.Cols) - 1; i >= 1; i-- {
						if strings.HasPrefix(tb.Cols[i].Name, "c") && !tb.Cols[i].Virtual {
							k = i
							break
						}
					}
					if k < 0 || indexed(body.String(), files, w, tb.Name, tb.Cols[k].Name) || !room(tb.Name+"."+tb.Cols[k].Name, 2) {
						continue
					}
					c := tb.Cols[k]
					ck := tb.Name + "." + c.Name
					s, e := emit(fmt.Sprintf("ALTER TABLE `%s` DROP COLUMN `%s`", tb.Name, c.Name))
					emit(fmt.Sprintf("ALTER TABLE `%s` ADD COLUMN `%s` integer NULL", tb.Name, c.Name))
					bt, existed := before[tb.Name]
					preInstance := existed && bt.has(c.Name) && !contains(lf.events[ck], "drop") && !contains(lf.events[tb.Name], "drop")
					ev(ck, "drop")
					ev(ck, "add")
					dropAt(s, e, ck)
					if preInstance {
						lf.expect = append(lf.expect, lintExpect{code: "DS103", key: ck, what: "column " + tb.Name + "." + c.Name + " (re-added afterwards)", start: s, end: e})
					}
					tb.Cols[k].Type = "integer"
					lf.desc = append(lf.desc, fmt.Sprintf("DROP COLUMN %s.%s then ADD COLUMN of the same name", tb.Name, c.Name))
					r.Probe("column-dropped-and-re-added")
				case 9: // drop an existing table and create a table of the same name again
					if !room(tb.Name, 2) {
						continue
					}
					nt := &lTable{Name: tb.Name, Cols: []lCol{{Name: "id", Type: "integer"}, {Name: fmt.Sprintf("c%d", next()), Type: "text"}}}
					s, e := emit(fmt.Sprintf("DROP TABLE `%s`", tb.Name))
					emit(nt.createSQL(nt.Name))
					_, existed := before[tb.Name]
					preInstance := existed && !contains(lf.events[tb.Name], "drop")
					ev(tb.Name, "drop")
					ev(tb.Name, "add")
					for _, nc := range nt.Cols[1:] {
						ev(nt.Name+"."+nc.Name, "add")
					}
					dropAt(s, e, tb.Name)
					if preInstance {
						lf.expect = append(lf.expect, lintExpect{code: "DS102", key: tb.Name, what: "table " + tb.Name + " (re-created afterwards)", start: s, end: e})
					}
					tables[tb.Name] = nt
					lf.desc = append(lf.desc, "DROP TABLE "+tb.Name+" then CREATE TABLE of the same name")
					r.Probe("table-dropped-and-re-created")
				case 11: // an unrelated table that happens to be called new_<t>, other work, then DROP TABLE <t>
					if busy(tableKeys(tb)...) || tables["new_"+tb.Name] != nil {
						continue
					}
					if _, existed := before[tb.Name]; !existed {
						continue
					}
					nt := &lTable{Name: "new_" + tb.Name, Cols: []lCol{{Name: "id", Type: "integer"}}}
					ot := &lTable{Name: fmt.Sprintf("o%d", next()), Cols: []lCol{{Name: "id", Type: "integer"}, {Name: "v", Type: "integer"}}}
					emit(nt.createSQL(nt.Name))
					emit(ot.createSQL(ot.Name), fmt.Sprintf("CREATE INDEX `i%d` ON `%s` (`v`)", next(), ot.Name))
					s, e := emit(fmt.Sprintf("DROP TABLE `%s`", tb.Name))
					for _, k := range tableKeys(nt) {
						ev(k, "add")
					}
					for _, k := range tableKeys(ot) {
						ev(k, "add")
					}
					ev(tb.Name, "drop")
					dropAt(s, e, tb.Name)
					lf.expect = append(lf.expect, lintExpect{code: "DS102", key: tb.Name, what: "table " + tb.Name + " (after an unrelated CREATE TABLE new_" + tb.Name + ")", start: s, end: e})
					tables[nt.Name], tables[ot.Name] = nt, ot
					delete(tables, tb.Name)
					lf.desc = append(lf.desc, fmt.Sprintf("CREATE TABLE new_%s (unrelated); create %s with an index; DROP TABLE %s", tb.Name, ot.Name, tb.Name))
					r.Probe("unrelated-table-named-like-a-rebuild-temporary")
				case 12: // what starts like a rebuild of <t> drops another table where the rows would be copied
					if busy(tableKeys(tb)...) {
						continue
					}
					if _, existed := before[tb.Name]; !existed {
						continue
					}
					var others []string
					for n, o := range tables {
						if _, existed := before[n]; existed && n != tb.Name && !busy(tableKeys(o)...) && !strings.HasPrefix(n, "new_") {
							others = append(others, n)
						}
					}
					sort.Strings(others)
					if len(others) == 0 || tables["new_"+tb.Name] != nil {
						continue
					}
					ot := tables[others[t.Draw("sandwiched-table", len(others))]]
					// (The new table has columns of its own: no later operation of this file meets a column
					// name that belonged to the dropped table.)
					nt := &lTable{Name: tb.Name, Cols: []lCol{{Name: "id", Type: "integer"}, {Name: fmt.Sprintf("c%d", next()), Type: "text"}}}
					emit(nt.createSQL("new_" + tb.Name))
					s1, e1 := emit(fmt.Sprintf("DROP TABLE `%s`", ot.Name))
					s2, e2 := emit(fmt.Sprintf("DROP TABLE `%s`", tb.Name))
					emit(fmt.Sprintf("ALTER TABLE `new_%s` RENAME TO `%s`", tb.Name, tb.Name))
					ev(ot.Name, "drop")
					ev(tb.Name, "drop")
					ev(tb.Name, "add")
					for _, nc := range nt.Cols[1:] {
						ev(nt.Name+"."+nc.Name, "add")
					}
					dropAt(s1, e1, ot.Name)
					dropAt(s2, e2, tb.Name)
					lf.expect = append(lf.expect,
						lintExpect{code: "DS102", key: ot.Name, what: "table " + ot.Name + " (dropped between CREATE TABLE new_" + tb.Name + " and DROP TABLE " + tb.Name + ")", start: s1, end: e1},
						lintExpect{code: "DS102", key: tb.Name, what: "table " + tb.Name + " (dropped without its rows being copied, then re-created by a rename)", start: s2, end: e2})
					delete(tables, ot.Name)
					tables[tb.Name] = nt
					lf.desc = append(lf.desc, fmt.Sprintf("CREATE TABLE new_%s; DROP TABLE %s; DROP TABLE %s; RENAME new_%s TO %s", tb.Name, ot.Name, tb.Name, tb.Name, tb.Name))
					r.Probe("drop-sandwiched-in-a-rebuild-shape")
				case 13: // a rebuild of <t> whose result gets another name: <t> is gone afterwards
					if busy(tableKeys(tb)...) || tables["new_"+tb.Name] != nil || tables[tb.Name+"_v2"] != nil {
						continue
					}
					if _, existed := before[tb.Name]; !existed {
						continue
					}
					nt := &lTable{Name: tb.Name + "_v2", Cols: append([]lCol(nil), tb.Cols...)}
					var keep []string
					for _, x := range tb.Cols {
						if !x.Virtual {
							keep = append(keep, "`"+x.Name+"`")
						}
					}
					emit(nt.createSQL("new_"+tb.Name),
						fmt.Sprintf("INSERT INTO `new_%s` (%s) SELECT %s FROM `%s`", tb.Name, strings.Join(keep, ", "), strings.Join(keep, ", "), tb.Name))
					s, e := emit(fmt.Sprintf("DROP TABLE `%s`", tb.Name))
					emit(fmt.Sprintf("ALTER TABLE `new_%s` RENAME TO `%s`", tb.Name, nt.Name))
					ev(tb.Name, "drop")
					for _, k := range tableKeys(nt) {
						ev(k, "add")
					}
					dropAt(s, e, tb.Name)
					lf.expect = append(lf.expect, lintExpect{code: "DS102", key: tb.Name, what: "table " + tb.Name + " (its copy is renamed to " + nt.Name + ")", start: s, end: e})
					delete(tables, tb.Name)
					tables[nt.Name] = nt
					lf.desc = append(lf.desc, fmt.Sprintf("rebuild of %s that ends in RENAME TO %s", tb.Name, nt.Name))
					r.Probe("rebuild-renamed-to-another-name")
				case 10: // a temporary column within the file
					c := lCol{Name: fmt.Sprintf("x%d", next()), Type: "text"}
					s, e := emit(fmt.Sprintf("ALTER TABLE `%s` ADD COLUMN `%s` text NULL", tb.Name, c.Name), fmt.Sprintf("ALTER TABLE `%s` DROP COLUMN `%s`", tb.Name, c.Name))
					ev(tb.Name+"."+c.Name, "add")
					ev(tb.Name+"."+c.Name, "drop")
					dropAt(s, e, tb.Name+"."+c.Name)
					lf.desc = append(lf.desc, "add and drop temporary column "+tb.Name+"."+c.Name)
					r.Probe("temporary-column-added-and-dropped")
				default: // temporary object within the file
					tmp := &lTable{Name: fmt.Sprintf("tmp%d", next()), Cols: []lCol{{Name: "id", Type: "integer"}, {Name: "x", Type: "text"}}}
					s, e := emit(tmp.createSQL(tmp.Name), fmt.Sprintf("DROP TABLE `%s`", tmp.Name))
					ev(tmp.Name, "add")
					ev(tmp.Name, "drop")
					dropAt(s, e, tmp.Name)
					lf.desc = append(lf.desc, "create and drop temporary table "+tmp.Name)
					r.Probe("temporary-table-created-and-dropped")
				}
			}
			if body.Len() == headerLen {
				continue
			}
			if fileNolint != "" {
				var keep []lintExpect
				for _, e := range lf.expect {
					if e.code == fileNolint {
						lf.nolint = append(lf.nolint, [2]int{e.start, e.end})
						continue
					}
					keep = append(keep, e)
				}
				if len(keep) > 0 {
					r.Probe("file-level-nolint-leaves-a-destructive-change")
				}
				lf.expect = keep
			}
			lf.name = fmt.Sprintf("%s_h%d.sql", version, f)
			w.WriteFile(lf.name, body.String())
			w.Seal()
		}
		files = append(files, lf)
		r.Logf("file %s: %s expect=%d", lf.name, strings.Join(lf.desc, "; "), len(lf.expect))
		r.Sample("file %d: %s -> expected destructive diagnostics: %d", f, strings.Join(lf.desc, "; "), len(lf.expect))
	}
	if len(files) == 0 {
		return
	}
	n := 1 + t.Draw("latest", len(files))
	res := w.Atlas(nil, "migrate", "lint", "--dir", w.DirURL(), "--dev-url", w.DevURL(), "--latest", fmt.Sprint(n), "--format", "{{ json . }}")
	r.Nontrivial()
	if res.Panicked {
		r.Fail(propC18, "no-crash", "lint-panic", "migrate lint panicked: %s", res.ErrLine())
		return
	}
	var rep struct {
		Files []struct {
			Name    string
			Error   string
			Reports []struct {
				Text        string
				Diagnostics []struct {
					Pos  int
					Text string
					Code string
				}
			}
		}
	}
	if err := json.Unmarshal([]byte(res.Stdout), &rep); err != nil {
		r.Fail(propC18, "lint-output", "lint-output-unparsable", "migrate lint (exit %d) printed no JSON report: %s / %s", res.Exit, firstN(res.Stdout, 200), res.ErrLine())
		return
	}
	window := files[len(files)-n:]
	anyExpected := false
	got := map[string][]struct {
		Pos        int
		Code, Text string
	}{}
	for _, f := range rep.Files {
		for _, rp := range f.Reports {
			for _, d := range rp.Diagnostics {
				if strings.HasPrefix(d.Code, "DS") {
					got[f.Name] = append(got[f.Name], struct {
						Pos        int
						Code, Text string
					}{d.Pos, d.Code, d.Text})
				}
			}
		}
	}
	r.Logf("lint --latest %d -> %s reported files=%d", n, res.Class(), len(got))
	r.Sample("`migrate lint --latest %d` -> %s; destructive diagnostics: %v", n, res.Class(), got)
	for _, f := range window {
		ds := got[f.name]
		used := make([]bool, len(ds))
		for _, e := range f.expect {
			anyExpected = true
			r.Fired("destructive/" + e.code)
			found := false
			for i, d := range ds {
				if used[i] || d.Code != e.code {
					continue
				}
				if e.anywhere || (d.Pos >= e.start && d.Pos < e.end) {
					used[i], found = true, true
					break
				}
			}
			if !found {
				how := "hand-written"
				if e.anywhere {
					how = "migrate-diff"
				}
				r.Fail(propC18, "destructive-flagged", "missed-destructive/"+e.code+"/"+how+"/seq="+f.seq(e.key), "file %s (%s) drops %s, which existed before the file, but lint reports no %s on the causing statement (bytes %d-%d); diagnostics: %v", f.name, strings.Join(f.desc, "; "), e.what, e.code, e.start, e.end, ds)
				return
			}
		}
		for i, d := range ds {
			for _, nl := range f.nolint {
				if d.Pos >= nl[0] && d.Pos < nl[1] {
					used[i] = true // what lint says about an acknowledged drop is not C18's subject
				}
			}
			if !used[i] {
				key := ""
				for _, dr := range f.drops {
					if d.Pos >= dr.start && d.Pos < dr.end {
						key = dr.key
					}
				}
				r.Fail(propC18, "additive-not-flagged", "false-destructive/"+d.Code+"/seq="+f.seq(key), "file %s (%s): lint reports %s %q at %d, but nothing that existed before the file is dropped there", f.name, strings.Join(f.desc, "; "), d.Code, d.Text, d.Pos)
				return
			}
		}
		if len(f.expect) == 0 {
			r.Probe("additive-file-in-window")
		}
	}
	for name := range got {
		in := false
		for _, f := range window {
			if f.name == name {
				in = true
			}
		}
		if !in {
			r.Fail(propC18, "window", "diagnostic-outside-window", "lint --latest %d reports on %s which is outside the window", n, name)
			return
		}
	}
	if anyExpected != (res.Exit != 0) {
		r.Fail(propC18, "exit-status", fmt.Sprintf("exit-status/expected-destructive=%v", anyExpected), "destructive changes in the window: %v, exit status %d (%s)", anyExpected, res.Exit, res.ErrLine())
	}
}

// indexed reports whether an index on table.col was created by the files written so far.
func indexed(cur string, files []*lintFile, w *World, table, col string) bool {
	needle := fmt.Sprintf("ON `%s` (`%s`)", table, col)
	if strings.Contains(cur, needle) {
		return true
	}
	for n, c := range w.DirSnapshot() {
		_ = n
		if strings.Contains(c, needle) {
			return true
		}
	}
	return false
}

func contains(ss []string, what string) bool {
	for _, s := range ss {
		if s == what || strings.HasSuffix(s, ":"+what) {
			return true
		}
	}
	return false
}
