package schemasim

import (
	"bytes"
	"context"
	"errors"
	"os"
	"os/exec"
	"path/filepath"
	"strings"
	"time"

	"verif/sim/simkit"
)

// atlas runs the real CLI (built from /repo with -tags verif) with a private HOME and TMPDIR.
func atlas(bin, dir string, args ...string) (stdout, stderr string, exit int) {
	for _, d := range []string{"home", "tmp"} {
		os.MkdirAll(filepath.Join(dir, d), 0o755)
	}
	ctx, cancel := context.WithTimeout(context.Background(), 120*time.Second)
	defer cancel()
	cmd := exec.CommandContext(ctx, bin, args...)
	cmd.Dir = dir
	cmd.Env = []string{"ATLAS_NO_UPGRADE_SUGGESTIONS=1", "ATLAS_NO_UPDATE_NOTIFIER=1", "HOME=" + filepath.Join(dir, "home"), "TMPDIR=" + filepath.Join(dir, "tmp"), "PATH=/usr/bin:/bin", "NO_COLOR=1", "VERIF_NOW=1704067200"}
	var so, se bytes.Buffer
	cmd.Stdout, cmd.Stderr = &so, &se
	err := cmd.Run()
	if ctx.Err() != nil {
		simkit.Harnessf("atlas %v: watchdog timeout", args)
	}
	var ee *exec.ExitError
	switch {
	case err == nil:
	case errors.As(err, &ee):
		exit = ee.ExitCode()
	default:
		simkit.Harnessf("atlas %v: %v", args, err)
	}
	return so.String(), se.String(), exit
}

func errLine(stdout, stderr string) string {
	for _, l := range strings.Split(stderr+"\n"+stdout, "\n") {
		if strings.HasPrefix(l, "Error:") || strings.HasPrefix(l, "panic:") {
			return l
		}
	}
	s := strings.TrimSpace(stderr)
	if len(s) > 200 {
		s = s[:200]
	}
	return s
}
