package schemasim

import (
	"fmt"
	"strings"

	"verif/sim/simkit"
)

// Type catalogue (SQLite feature set Atlas documents as supported).
var (
	looseTypes  = []string{"integer", "int", "bigint", "tinyint", "real", "double", "float", "text", "varchar(255)", "char(10)", "blob", "numeric", "decimal(10,2)", "boolean", "datetime", "date", "json", "uuid", "money"}
	strictTypes = []string{"integer", "int", "real", "text", "blob"}
	fkActions   = []string{"", "NO ACTION", "CASCADE", "SET NULL", "RESTRICT", "SET DEFAULT"}
)

// affinity classes used for value generation.
func kindOf(typ string) string {
	t := strings.ToLower(typ)
	switch {
	case strings.Contains(t, "int"):
		return "int"
	case strings.Contains(t, "char"), strings.Contains(t, "text"), strings.Contains(t, "clob"), t == "json", t == "uuid", t == "datetime", t == "date":
		return "text"
	case t == "blob":
		return "blob"
	case strings.Contains(t, "real"), strings.Contains(t, "doub"), strings.Contains(t, "floa"):
		return "real"
	case t == "boolean":
		return "bool"
	}
	return "num" // numeric, decimal, user types
}

// Gen is the schema generator/editor; every choice comes from the tape.
type Gen struct {
	T       *simkit.Tape
	seq     int
	Feature map[string]int // feature usage counters (reach measurement)
	// NoRefToNamesake: no foreign key references a table called new_<another table> (see newFK).
	NoRefToNamesake bool
}

func (g *Gen) next() int { g.seq++; return g.seq }

func (g *Gen) use(f string) {
	if g.Feature == nil {
		g.Feature = map[string]int{}
	}
	g.Feature[f]++
}

func (g *Gen) colType(t *Tbl) string {
	if t.Strict {
		return strictTypes[g.T.Draw("strict-type", len(strictTypes))]
	}
	return looseTypes[g.T.Draw("type", len(looseTypes))]
}

func (g *Gen) literalFor(typ string) string {
	if typ == "money" {
		// For a user-defined type Atlas always emits the literal quoted; under the NUMERIC affinity
		// such a type gets, '31' and 31 are the same default. Only the quoted form is generated.
		return fmt.Sprintf("'%d'", g.T.Draw("num-default", 50))
	}
	switch kindOf(typ) {
	case "int":
		// Integers with leading zeros are decimal in SQLite (0644 is six hundred and forty-four).
		if g.T.Chance("int-default-with-leading-zero", 1, 6) {
			g.use("int-default-with-leading-zero")
			return []string{"0644", "-010", "08", "007"}[g.T.Draw("leading-zero", 4)]
		}
		// Two neighbouring integers beyond what a float64 tells apart.
		if g.T.Chance("int-default-beyond-float-precision", 1, 8) {
			g.use("int-default-beyond-float-precision")
			return []string{"9007199254740992", "9007199254740993"}[g.T.Draw("big-int", 2)]
		}
		return fmt.Sprint(g.T.Draw("int-default", 100))
	case "real":
		// Also the spellings people use for the same numbers: a trailing zero, no leading zero, an exponent.
		if g.T.Chance("real-default-spelling", 1, 3) {
			g.use("real-default-in-another-spelling")
			return []string{"1.0", "1.50", ".5", "1e5", "3.14159265358979"}[g.T.Draw("real-spelling", 5)]
		}
		return fmt.Sprintf("%d.5", g.T.Draw("real-default", 10))
	case "bool":
		if g.T.Chance("bool-default-keyword", 1, 3) {
			g.use("bool-default-keyword")
			return []string{"TRUE", "FALSE", "true"}[g.T.Draw("bool-keyword", 3)]
		}
		return fmt.Sprint(g.T.Draw("bool-default", 2))
	case "num":
		return fmt.Sprint(g.T.Draw("num-default", 50))
	case "blob":
		return "x'00ff'"
	}
	// Now and then a text that looks like a template to HCL: exports have to escape it.
	if g.T.Chance("template-looking-text", 1, 8) {
		g.use("template-looking-literal")
		return []string{"'${d}'", "'%{d}'", "'a$${b}'"}[g.T.Draw("template-text", 3)]
	}
	// A text whose value is itself wrapped in quotes.
	if g.T.Chance("quoted-text-in-quotes", 1, 10) {
		g.use("text-default-holding-quotes")
		return fmt.Sprintf("'''q%d'''", g.T.Draw("text-default", 20))
	}
	return fmt.Sprintf("'d%d'", g.T.Draw("text-default", 20))
}

// newCol draws a regular column.
func (g *Gen) newCol(t *Tbl) *Col {
	c := &Col{Name: fmt.Sprintf("c%d", g.next()), Null: g.T.Chance("nullable", 2, 3)}
	c.Type = g.colType(t)
	switch g.T.Weighted("default-kind", 4, 3, 1) {
	case 1:
		c.Def = g.literalFor(c.Type)
		g.use("literal-default")
	case 2:
		switch kindOf(c.Type) {
		case "int", "num", "real":
			c.Def, c.DefExpr = "1 + 1", true
		default:
			if c.Type == "datetime" || c.Type == "date" {
				c.Def, c.DefExpr = "CURRENT_TIMESTAMP", true
			} else {
				c.Def, c.DefExpr = "lower('ABC')", true
			}
		}
		g.use("expression-default")
	}
	return c
}

func (g *Gen) newGenCol(t *Tbl) *Col {
	if len(t.PK) == 0 {
		return nil
	}
	base := t.PK[0]
	if t.Col("id") != nil {
		base = "id"
	}
	c := &Col{Name: fmt.Sprintf("g%d", g.next()), Type: "integer", Null: true, GenStored: g.T.Chance("stored", 1, 2)}
	if t.Strict {
		c.Type = "int"
	} else if g.T.Chance("generated-column-type-with-comma", 1, 4) {
		c.Type = "decimal(10,2)"
		g.use("generated-column-type-with-comma")
	}
	c.Gen = fmt.Sprintf("%s + %d", q(base), 1+g.T.Draw("gen-add", 5))
	if c.GenStored {
		g.use("generated-stored")
	} else {
		g.use("generated-virtual")
	}
	return c
}

func (g *Gen) indexable(t *Tbl) []*Col {
	var out []*Col
	for _, c := range t.Cols {
		if c.Gen == "" && kindOf(c.Type) != "bool" && kindOf(c.Type) != "blob" {
			out = append(out, c)
		}
	}
	return out
}

// predicate draws the WHERE clause of a partial index in the shapes people write: bare,
// parenthesised, ending in a list or in a function call.
func (g *Gen) predicate(c *Col) string {
	switch g.T.Weighted("predicate-shape", 3, 2, 1, 1, 1) {
	case 4:
		// A string literal that looks like a template to HCL.
		g.use("template-looking-literal")
		return q(c.Name) + " <> " + []string{"'${env}'", "'%{if}'"}[g.T.Draw("template-predicate", 2)]
	case 1:
		return "(" + q(c.Name) + " IS NOT NULL)"
	case 2:
		if kindOf(c.Type) == "text" {
			return q(c.Name) + " <> lower('ADMIN')"
		}
		return q(c.Name) + " IN (1, 2)"
	case 3:
		return q(c.Name) + " IS NOT NULL AND (" + q(c.Name) + " <> 0)"
	}
	return q(c.Name) + " IS NOT NULL"
}

func (g *Gen) newIdx(t *Tbl) *Idx {
	cols := g.indexable(t)
	if len(cols) == 0 {
		return nil
	}
	i := &Idx{Name: fmt.Sprintf("%s_i%d", t.Name, g.next()), Unique: g.T.Chance("unique", 1, 3)}
	switch g.T.Weighted("index-shape", 4, 2, 1) {
	case 0:
		i.Parts = []IdxPart{{Col: cols[g.T.Draw("idx-col", len(cols))].Name, Desc: g.T.Chance("desc", 1, 4)}}
	case 1:
		a := cols[g.T.Draw("idx-col", len(cols))]
		b := cols[g.T.Draw("idx-col2", len(cols))]
		i.Parts = []IdxPart{{Col: a.Name, Desc: g.T.Chance("desc", 1, 4)}}
		if b != a {
			i.Parts = append(i.Parts, IdxPart{Col: b.Name, Desc: g.T.Chance("desc", 1, 4)})
			g.use("multi-column-index")
		}
	default:
		c := cols[g.T.Draw("idx-col", len(cols))]
		desc := g.T.Chance("desc-expression", 1, 3)
		switch kindOf(c.Type) {
		case "text":
			i.Parts = []IdxPart{{Expr: "lower(" + q(c.Name) + ")", Desc: desc}}
		default:
			i.Parts = []IdxPart{{Expr: q(c.Name) + " + 1", Desc: desc}}
		}
		// Sometimes followed by a plain column, like (a + b) DESC, b.
		if c2 := cols[g.T.Draw("idx-col2", len(cols))]; c2 != c && g.T.Chance("expression-then-column", 1, 3) {
			i.Parts = append(i.Parts, IdxPart{Col: c2.Name})
		}
		g.use("expression-index")
	}
	for _, p := range i.Parts {
		if p.Desc {
			g.use("desc-index")
		}
	}
	if g.T.Chance("partial", 1, 4) {
		i.Where = g.predicate(cols[g.T.Draw("where-col", len(cols))])
		g.use("partial-index")
	}
	if i.Unique {
		// A UNIQUE over exactly the primary-key columns is redundant (SQLite itself does not
		// materialise it for some table kinds): not generated.
		if len(i.Parts) == len(t.PK) && i.Where == "" {
			same := true
			for k, p := range i.Parts {
				if p.Expr != "" || p.Col != t.PK[k] {
					same = false
				}
			}
			if same && len(t.PK) > 0 {
				i.Unique = false
			}
		}
	}
	if i.Unique {
		g.use("unique-index")
	}
	return i
}

func (g *Gen) newChk(t *Tbl) *Chk {
	var cand []*Col
	for _, c := range t.Cols {
		if c.Gen == "" && (kindOf(c.Type) == "int" || kindOf(c.Type) == "text") {
			cand = append(cand, c)
		}
	}
	if len(cand) == 0 {
		return nil
	}
	c := cand[g.T.Draw("check-col", len(cand))]
	k := &Chk{}
	if g.T.Chance("named-check", 1, 2) {
		k.Name = fmt.Sprintf("%s_k%d", t.Name, g.next())
		g.use("named-check")
	} else {
		g.use("unnamed-check")
	}
	if kindOf(c.Type) == "int" {
		k.Expr = fmt.Sprintf("%s >= %d", q(c.Name), g.T.Draw("check-bound", 3))
		// A conjunction of parenthesised terms: its outer parentheses are not redundant.
		if g.T.Chance("check-is-a-conjunction", 1, 4) {
			k.Expr = fmt.Sprintf("(%s >= %d) AND (%s < 900000000)", q(c.Name), g.T.Draw("check-bound", 3), q(c.Name))
			g.use("check-conjunction-of-parenthesised-terms")
		}
	} else {
		k.Expr = fmt.Sprintf("length(%s) > %d", q(c.Name), g.T.Draw("check-bound", 2))
		// A literal that reads like a constraint of its own: the word, a parenthesis, a column name.
		if g.T.Chance("check-literal-reads-like-a-check", 1, 4) {
			k.Expr = fmt.Sprintf("%s <> 'needs check (%s)'", q(c.Name), c.Name)
			g.use("check-literal-reads-like-a-check")
		}
	}
	// Two constraints with the same expression are one constraint to SQLite and to Atlas.
	for _, o := range t.Chk {
		if o.Expr == k.Expr {
			return nil
		}
	}
	return k
}

func (g *Gen) newFK(s *Sch, t *Tbl) (*FK, *Col) {
	var parents, composite []*Tbl
	for _, p := range s.Tables {
		// A table never references the table called new_<itself>: during its own rebuild that is the
		// name of the temporary table, the reference turns into a self reference and SQLite rewrites
		// it on RENAME (another face of the recorded finding temp-table-name-collision, DESIGN 11.4).
		if p.Name == "new_"+t.Name {
			continue
		}
		// Nor, outside C01, any table called new_<another table>: when that other table is rebuilt in the
		// same plan, SQLite points the reference at it on RENAME (recorded C01 finding
		// reference-to-a-table-named-like-a-rebuild-temporary; the other walks are not about it).
		if g.NoRefToNamesake && strings.HasPrefix(p.Name, "new_") && s.Table(strings.TrimPrefix(p.Name, "new_")) != nil {
			continue
		}
		if len(p.PK) == 1 {
			parents = append(parents, p)
		}
		if len(p.PK) == 2 {
			composite = append(composite, p)
		}
	}
	// A composite key: (new column, the table's own id) -> parent (id, id2). The second local column
	// carries the name of the first referenced column, as happens with shared key names.
	if len(composite) > 0 && t.Col("id") != nil && g.T.Chance("composite-fk", 1, 2) {
		p := composite[g.T.Draw("fk-parent", len(composite))]
		c := &Col{Name: fmt.Sprintf("r%d", g.next()), Type: "integer", Null: true}
		if t.Strict {
			c.Type = "int"
		}
		f := &FK{Name: fmt.Sprintf("%s_f%d", t.Name, g.next()), Cols: []string{c.Name, "id"}, RefTable: p.Name, RefCols: append([]string(nil), p.PK...)}
		f.OnDelete = []string{"", "CASCADE", "NO ACTION"}[g.T.Draw("on-delete", 3)]
		g.use("composite-fk")
		return f, c
	}
	if len(parents) == 0 {
		return nil, nil
	}
	p := parents[g.T.Draw("fk-parent", len(parents))]
	c := &Col{Name: fmt.Sprintf("r%d", g.next()), Type: "integer", Null: true}
	if t.Strict {
		c.Type = "int"
	}
	f := &FK{Cols: []string{c.Name}, RefTable: p.Name, RefCols: []string{p.PK[0]}}
	// Foreign keys always carry a constraint name: HCL requires one, and for SQL sources Atlas
	// assigns the names it inspects from the dev database ("0", "1", ...). A desired graph with an
	// empty FK symbol is not an input a user can produce.
	f.Name = fmt.Sprintf("%s_f%d", t.Name, g.next())
	if g.T.Chance("numeric-fk-name", 1, 4) {
		f.Name = fmt.Sprint(g.next())
		g.use("numeric-fk-name")
	}
	f.OnUpdate = fkActions[g.T.Draw("on-update", len(fkActions))]
	f.OnDelete = fkActions[g.T.Draw("on-delete", len(fkActions))]
	if f.OnDelete == "SET DEFAULT" || f.OnUpdate == "SET DEFAULT" {
		c.Def = "0"
	}
	switch {
	case p == t:
		g.use("self-fk")
	default:
		g.use("cross-fk")
	}
	return f, c
}

// NewTable draws a table.
func (g *Gen) NewTable(s *Sch) *Tbl {
	t := &Tbl{Name: fmt.Sprintf("t%d", g.next())}
	// Now and then a user's table is called new_<another table>: the name SQLite's rebuild
	// procedure uses for its temporary table. It is a table like any other and is not part of
	// the change set when that other table is rebuilt.
	if len(s.Tables) > 0 && g.T.Chance("named-like-a-rebuild-temporary", 1, 10) {
		if o := s.Tables[g.T.Draw("namesake", len(s.Tables))]; s.Table("new_"+o.Name) == nil && !strings.HasPrefix(o.Name, "new_") {
			t.Name = "new_" + o.Name
			g.use("table-named-like-a-rebuild-temporary")
		}
	}
	t.Strict = g.T.Chance("strict", 1, 6)
	if t.Strict {
		g.use("strict")
	}
	// Primary key.
	switch g.T.Weighted("pk-shape", 5, 2, 2, 1) {
	case 0:
		typ := "integer"
		t.Cols = append(t.Cols, &Col{Name: "id", Type: typ})
		t.PK = []string{"id"}
	case 1:
		t.Cols = append(t.Cols, &Col{Name: "id", Type: "integer"})
		t.PK = []string{"id"}
		t.AutoInc = true
		g.use("autoincrement")
	case 2:
		t.Cols = append(t.Cols, &Col{Name: "id", Type: "integer"}, &Col{Name: "id2", Type: "text"})
		t.PK = []string{"id", "id2"}
		g.use("composite-pk")
		// The key's column order need not be the declaration order.
		if g.T.Chance("pk-order-differs-from-column-order", 1, 2) {
			t.PK = []string{"id2", "id"}
			g.use("composite-pk-in-other-order")
		}
	default:
		g.use("no-pk")
	}
	if len(t.PK) > 0 && !t.AutoInc && g.T.Chance("without-rowid", 1, 5) {
		t.WithoutRowID = true
		g.use("without-rowid")
	}
	n := g.T.Range("columns", 1, 4)
	for i := 0; i < n; i++ {
		t.Cols = append(t.Cols, g.newCol(t))
	}
	if g.T.Chance("generated-column", 1, 4) {
		if c := g.newGenCol(t); c != nil {
			t.Cols = append(t.Cols, c)
		}
	}
	for i, n := 0, g.T.Weighted("indexes", 3, 3, 2, 1); i < n; i++ {
		if ix := g.newIdx(t); ix != nil {
			t.Idx = append(t.Idx, ix)
		}
	}
	for i, n := 0, g.T.Weighted("checks", 3, 2, 1); i < n; i++ {
		if k := g.newChk(t); k != nil {
			t.Chk = append(t.Chk, k)
		}
	}
	// Foreign keys may point at existing tables or at the table itself.
	tmp := &Sch{Tables: append(append([]*Tbl(nil), s.Tables...), t)}
	for i, n := 0, g.T.Weighted("fks", 4, 2, 1); i < n; i++ {
		if f, c := g.newFK(tmp, t); f != nil {
			t.Cols = append(t.Cols, c)
			t.FKs = append(t.FKs, f)
		}
	}
	return t
}

func remove[T any](s []T, i int) []T { return append(append([]T(nil), s[:i]...), s[i+1:]...) }

// dropColumn removes a column and everything that mentions it.
func dropColumn(s *Sch, t *Tbl, name string) {
	for i, c := range t.Cols {
		if c.Name == name {
			t.Cols = remove(t.Cols, i)
			break
		}
	}
	var idx []*Idx
	for _, i := range t.Idx {
		keep := true
		for _, p := range i.Parts {
			if p.Col == name || strings.Contains(p.Expr, q(name)) {
				keep = false
			}
		}
		if strings.Contains(i.Where, q(name)) {
			keep = false
		}
		if keep {
			idx = append(idx, i)
		}
	}
	t.Idx = idx
	var chk []*Chk
	for _, c := range t.Chk {
		if !strings.Contains(c.Expr, q(name)) {
			chk = append(chk, c)
		}
	}
	t.Chk = chk
	var fks []*FK
	for _, f := range t.FKs {
		keep := true
		for _, c := range f.Cols {
			if c == name {
				keep = false
			}
		}
		if keep {
			fks = append(fks, f)
		}
	}
	t.FKs = fks
}

func dropTable(s *Sch, name string) {
	for i, t := range s.Tables {
		if t.Name == name {
			s.Tables = remove(s.Tables, i)
			break
		}
	}
	for _, t := range s.Tables {
		for {
			found := false
			for _, f := range t.FKs {
				if f.RefTable == name {
					dropColumn(s, t, f.Cols[0])
					found = true
					break
				}
			}
			if !found {
				break
			}
		}
	}
}

// EditKinds are the elementary edits of a desired schema.
var EditKinds = []string{
	"add-table", "drop-table", "add-column", "add-generated-column", "drop-column",
	"change-type", "toggle-null", "change-default", "add-index", "drop-index", "modify-index", "move-index",
	"add-check", "drop-check", "modify-check", "add-fk", "drop-fk", "modify-fk",
	"toggle-without-rowid", "toggle-strict", "toggle-autoincrement", "modify-generated", "generated-to-regular",
}

// Edit applies one elementary edit and returns its kind ("" if nothing applicable).
func (g *Gen) Edit(s *Sch, maxTables int) string {
	kind := EditKinds[g.T.Draw("edit-kind", len(EditKinds))]
	if len(s.Tables) == 0 {
		kind = "add-table"
	}
	var t *Tbl
	if len(s.Tables) > 0 {
		t = s.Tables[g.T.Draw("edit-table", len(s.Tables))]
	}
	regular := func() []*Col {
		var out []*Col
		for _, c := range t.Cols {
			pk := false
			for _, p := range t.PK {
				if p == c.Name {
					pk = true
				}
			}
			if !pk && c.Gen == "" {
				out = append(out, c)
			}
		}
		return out
	}
	switch kind {
	case "add-table":
		if len(s.Tables) >= maxTables {
			return ""
		}
		s.Tables = append(s.Tables, g.NewTable(s))
	case "drop-table":
		dropTable(s, t.Name)
	case "add-column":
		if len(t.Cols) >= 7 {
			return ""
		}
		// Anywhere after the first column: an in-place ADD COLUMN appends physically, so the
		// physical order of the table then differs from the declared order.
		c := g.newCol(t)
		at := 1 + g.T.Draw("add-column-position", len(t.Cols))
		if at < len(t.Cols) {
			g.use("column-added-in-the-middle")
		}
		t.Cols = append(t.Cols[:at:at], append([]*Col{c}, t.Cols[at:]...)...)
	case "add-generated-column":
		c := g.newGenCol(t)
		if c == nil || len(t.Cols) >= 7 {
			return ""
		}
		// Sometimes the new column's name extends the name of a generated column that is declared
		// after it ("g3x" before "g3"): whoever looks a column up by name in the CREATE statement must
		// not stop at a longer name.
		placed := false
		for i, o := range t.Cols {
			if o.Gen != "" && t.Col(o.Name+"x") == nil && g.T.Chance("name-extends-a-later-generated-column", 1, 3) {
				c.Name = o.Name + "x"
				t.Cols = append(t.Cols[:i:i], append([]*Col{c}, t.Cols[i:]...)...)
				g.use("generated-column-name-is-prefix-of-earlier-one")
				placed = true
				break
			}
		}
		if !placed {
			t.Cols = append(t.Cols, c)
		}
	case "drop-column":
		cs := regular()
		if len(cs) == 0 || len(t.Cols) <= 1 {
			return ""
		}
		dropColumn(s, t, cs[g.T.Draw("drop-col", len(cs))].Name)
	case "change-type":
		cs := regular()
		if len(cs) == 0 {
			return ""
		}
		c := cs[g.T.Draw("col", len(cs))]
		for _, f := range t.FKs {
			if f.Cols[0] == c.Name {
				return ""
			}
		}
		c.Type = g.colType(t)
		if c.Def != "" {
			if c.DefExpr {
				c.Def, c.DefExpr = "", false
			} else {
				c.Def = g.literalFor(c.Type)
			}
		}
	case "toggle-null":
		cs := regular()
		if len(cs) == 0 {
			return ""
		}
		c := cs[g.T.Draw("col", len(cs))]
		c.Null = !c.Null
	case "change-default":
		cs := regular()
		if len(cs) == 0 {
			return ""
		}
		c := cs[g.T.Draw("col", len(cs))]
		// A default beyond float precision usually changes to its neighbour: a change only an
		// exact comparison sees.
		if c.Def == "9007199254740992" || c.Def == "9007199254740993" {
			if g.T.Chance("to-the-neighbouring-integer", 2, 3) {
				c.Def = map[string]string{"9007199254740992": "9007199254740993", "9007199254740993": "9007199254740992"}[c.Def]
				g.use("default-changed-to-neighbouring-big-integer")
				break
			}
		}
		// A text default sometimes changes in nothing but the case of its letters.
		if strings.HasPrefix(c.Def, "'d") && !c.DefExpr && g.T.Chance("letter-case-only", 1, 4) {
			c.Def = "'D" + c.Def[2:]
			g.use("default-changed-in-letter-case-only")
			break
		}
		if strings.HasPrefix(c.Def, "'D") && !c.DefExpr && g.T.Chance("letter-case-only", 1, 2) {
			c.Def = "'d" + c.Def[2:]
			g.use("default-changed-in-letter-case-only")
			break
		}
		if c.Def != "" && g.T.Chance("remove-default", 1, 3) {
			c.Def, c.DefExpr = "", false
		} else {
			c.Def, c.DefExpr = g.literalFor(c.Type), false
		}
	case "add-index":
		if len(t.Idx) >= 3 {
			return ""
		}
		ix := g.newIdx(t)
		if ix == nil {
			return ""
		}
		t.Idx = append(t.Idx, ix)
	case "drop-index":
		if len(t.Idx) == 0 {
			return ""
		}
		t.Idx = remove(t.Idx, g.T.Draw("idx", len(t.Idx)))
	case "move-index":
		// An index name leaves this table and is used on another one (index names are global in
		// SQLite): the old index has to go before the new one can be created.
		var others []*Tbl
		for _, o := range s.Tables {
			if o != t && len(o.Idx) < 3 {
				others = append(others, o)
			}
		}
		if len(t.Idx) == 0 || len(others) == 0 {
			return ""
		}
		k := g.T.Draw("idx", len(t.Idx))
		name := t.Idx[k].Name
		o := others[g.T.Draw("other-table", len(others))]
		nx := g.newIdx(o)
		if nx == nil {
			return ""
		}
		t.Idx = remove(t.Idx, k)
		nx.Name = name
		o.Idx = append(o.Idx, nx)
		g.use("index-name-moves-to-another-table")
	case "modify-index":
		if len(t.Idx) == 0 {
			return ""
		}
		ix := t.Idx[g.T.Draw("idx", len(t.Idx))]
		switch g.T.Draw("index-change", 3) {
		case 0:
			ix.Unique = !ix.Unique
			if ix.Unique && len(ix.Parts) == len(t.PK) && ix.Where == "" {
				same := len(t.PK) > 0
				for k, p := range ix.Parts {
					if p.Expr != "" || p.Col != t.PK[k] {
						same = false
					}
				}
				if same {
					ix.Unique = false
				}
			}
		case 1:
			ix.Parts[0].Desc = !ix.Parts[0].Desc
		default:
			if ix.Where != "" {
				ix.Where = ""
			} else if cs := g.indexable(t); len(cs) > 0 {
				ix.Where = g.predicate(cs[g.T.Draw("where-col", len(cs))])
			}
		}
	case "add-check":
		if len(t.Chk) >= 3 {
			return ""
		}
		k := g.newChk(t)
		if k == nil {
			return ""
		}
		t.Chk = append(t.Chk, k)
	case "drop-check":
		if len(t.Chk) == 0 {
			return ""
		}
		t.Chk = remove(t.Chk, g.T.Draw("chk", len(t.Chk)))
	case "modify-check":
		if len(t.Chk) == 0 {
			return ""
		}
		k := t.Chk[g.T.Draw("chk", len(t.Chk))]
		n := g.newChk(t)
		if n == nil {
			return ""
		}
		k.Expr = n.Expr
	case "add-fk":
		if len(t.FKs) >= 2 || len(t.Cols) >= 7 {
			return ""
		}
		f, c := g.newFK(s, t)
		if f == nil {
			return ""
		}
		t.Cols = append(t.Cols, c)
		t.FKs = append(t.FKs, f)
	case "drop-fk":
		if len(t.FKs) == 0 {
			return ""
		}
		t.FKs = remove(t.FKs, g.T.Draw("fk", len(t.FKs)))
	case "modify-fk":
		if len(t.FKs) == 0 {
			return ""
		}
		f := t.FKs[g.T.Draw("fk", len(t.FKs))]
		acts := []string{"", "NO ACTION", "CASCADE", "SET NULL", "RESTRICT"}
		if g.T.Chance("change-on-delete", 1, 2) {
			f.OnDelete = acts[g.T.Draw("action", len(acts))]
		} else {
			f.OnUpdate = acts[g.T.Draw("action", len(acts))]
		}
	case "toggle-without-rowid":
		if len(t.PK) == 0 || t.AutoInc {
			return ""
		}
		t.WithoutRowID = !t.WithoutRowID
	case "toggle-strict":
		if !t.Strict {
			for _, c := range t.Cols {
				ok := false
				for _, st := range strictTypes {
					if c.Type == st {
						ok = true
					}
				}
				if !ok {
					return ""
				}
			}
		}
		t.Strict = !t.Strict
	case "toggle-autoincrement":
		if len(t.PK) != 1 || t.WithoutRowID || t.Col(t.PK[0]).Type != "integer" {
			return ""
		}
		t.AutoInc = !t.AutoInc
	case "generated-to-regular":
		var gs []*Col
		for _, c := range t.Cols {
			if c.Gen != "" {
				gs = append(gs, c)
			}
		}
		if len(gs) == 0 {
			return ""
		}
		c := gs[g.T.Draw("gen-col", len(gs))]
		c.Gen, c.GenStored = "", false
	case "modify-generated":
		var gs []*Col
		for _, c := range t.Cols {
			if c.Gen != "" {
				gs = append(gs, c)
			}
		}
		if len(gs) == 0 {
			return ""
		}
		c := gs[g.T.Draw("gen-col", len(gs))]
		if g.T.Chance("flip-stored", 1, 2) {
			c.GenStored = !c.GenStored
		} else {
			c.Gen = fmt.Sprintf("%s + %d", q("id"), 6+g.T.Draw("gen-add", 5))
		}
	}
	return kind
}
