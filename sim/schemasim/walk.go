package schemasim

import (
	"context"
	"database/sql"
	"errors"
	"fmt"
	"os"
	"path/filepath"
	"regexp"
	"sort"
	"strings"

	"ariga.io/atlas/sql/migrate"
	"ariga.io/atlas/sql/schema"
	"ariga.io/atlas/sql/sqlite"
	"ariga.io/atlas/sql/sqltool"

	_ "github.com/mattn/go-sqlite3"

	"verif/sim/observe"
	"verif/sim/simkit"
)

// faultEQ wraps the connection Atlas executes a plan on. It fails the k-th statement
// or "abandons the connection" (the client dies) after the k-th statement.
type faultEQ struct {
	schema.ExecQuerier
	n            int
	failAt       int
	abandonAfter int
	abandoned    bool
	fired        string
	log          []string
}

var errInjected = errors.New("simulated statement failure")
var errAbandoned = errors.New("simulated: connection abandoned")

func (f *faultEQ) ExecContext(ctx context.Context, q string, args ...any) (sql.Result, error) {
	f.n++
	if f.abandoned {
		return nil, errAbandoned
	}
	if f.failAt == f.n {
		f.fired = "statement-error"
		return nil, errInjected
	}
	res, err := f.ExecQuerier.ExecContext(ctx, q, args...)
	if err == nil {
		f.log = append(f.log, q)
	}
	if f.abandonAfter == f.n {
		f.abandoned = true
		f.fired = "connection-abandoned"
	}
	return res, err
}

// world is the live database of a run.
type world struct {
	path string
	db   *sql.DB
	fk   bool
}

func openDB(path string, fk bool) *sql.DB {
	dsn := "file:" + path + "?_busy_timeout=5000"
	if fk {
		dsn += "&_fk=1"
	}
	db, err := sql.Open("sqlite3", dsn)
	if err != nil {
		simkit.Harnessf("open %s: %v", path, err)
	}
	return db
}

func planOpts(indent bool) []migrate.PlanOption {
	if !indent {
		return nil
	}
	return []migrate.PlanOption{func(o *migrate.PlanOptions) { o.Indent = "  " }}
}

// Focus selects which property's oracles a walk evaluates.
type Focus struct {
	Prop string
}

type tableRows struct {
	cols  []string          // all visible columns, generated ones included
	types map[string]string // declared types
	null  map[string]bool
	gen   map[string]bool // generated columns (their values are computed, not stored by the user)
	rows  []map[string]string
}

func readRows(db *sql.DB) map[string]*tableRows {
	out := map[string]*tableRows{}
	rs, err := db.Query("SELECT name FROM sqlite_master WHERE type='table' AND name NOT LIKE 'sqlite_%'")
	if err != nil {
		simkit.Harnessf("tables: %v", err)
	}
	var names []string
	for rs.Next() {
		var n string
		rs.Scan(&n)
		names = append(names, n)
	}
	rs.Close()
	for _, n := range names {
		tr := &tableRows{types: map[string]string{}, null: map[string]bool{}, gen: map[string]bool{}}
		cs, err := db.Query("SELECT name, lower(type), \"notnull\", hidden FROM pragma_table_xinfo(?) ORDER BY cid", n)
		if err != nil {
			simkit.Harnessf("xinfo: %v", err)
		}
		for cs.Next() {
			var c, t string
			var nn, h int
			cs.Scan(&c, &t, &nn, &h)
			if h == 1 {
				continue
			}
			if h >= 2 {
				tr.gen[c] = true
				t = strings.TrimSpace(strings.Replace(t, "generated always", "", 1))
			}
			tr.cols = append(tr.cols, c)
			tr.types[c] = t
			tr.null[c] = nn == 0
		}
		cs.Close()
		if len(tr.cols) > 0 {
			var sel []string
			for _, c := range tr.cols {
				sel = append(sel, "quote("+q(c)+")")
			}
			rows, err := db.Query("SELECT " + strings.Join(sel, ", ") + " FROM " + q(n))
			if err != nil {
				simkit.Harnessf("rows of %s: %v", n, err)
			}
			for rows.Next() {
				vals := make([]sql.NullString, len(tr.cols))
				ptrs := make([]any, len(vals))
				for i := range vals {
					ptrs[i] = &vals[i]
				}
				rows.Scan(ptrs...)
				m := map[string]string{}
				for i, c := range tr.cols {
					m[c] = vals[i].String
				}
				tr.rows = append(tr.rows, m)
			}
			rows.Close()
		}
		out[n] = tr
	}
	return out
}

func project(tr *tableRows, cols []string) []string {
	var out []string
	for _, r := range tr.rows {
		var b strings.Builder
		for _, c := range cols {
			b.WriteString(r[c])
			b.WriteByte('|')
		}
		out = append(out, b.String())
	}
	sort.Strings(out)
	return out
}

// valueFor returns a SQL literal for a new cell.
func valueFor(c *Col, k int, t *simkit.Tape) string {
	if c.Null && t.Chance("null-cell", 1, 5) {
		return "NULL"
	}
	switch kindOf(c.Type) {
	case "int":
		return fmt.Sprint(1000 + k)
	case "real":
		return fmt.Sprintf("%d.5", 1000+k)
	case "bool":
		return fmt.Sprint(k % 2)
	case "blob":
		return fmt.Sprintf("x'%04x'", k)
	case "num":
		return fmt.Sprint(2000 + k)
	}
	return fmt.Sprintf("'v%d'", k)
}

func insertRows(r *simkit.Run, db *sql.DB, s *Sch, cell *int) {
	t := r.T
	for _, tb := range s.Tables {
		n := t.Weighted("rows", 2, 2, 2, 1, 1)
		for i := 0; i < n; i++ {
			var cols, vals []string
			for _, c := range tb.Cols {
				if c.Gen != "" {
					continue
				}
				var fk *FK
				for _, f := range tb.FKs {
					if f.Cols[0] == c.Name {
						fk = f
					}
				}
				*cell++
				v := valueFor(c, *cell, t)
				if fk != nil {
					v = "NULL"
					// Reference an existing parent row (so that a cascade has something to act on).
					if fk.RefTable != "" && t.Chance("real-reference", 2, 3) {
						if keys := columnValues(db, fk.RefTable, fk.RefCols[0]); len(keys) > 0 {
							v = keys[t.Draw("parent-row", len(keys))]
							r.Probe("child-row-references-parent-row")
						}
					}
				}
				cols = append(cols, q(c.Name))
				vals = append(vals, v)
			}
			stmt := fmt.Sprintf("INSERT INTO %s (%s) VALUES (%s)", q(tb.Name), strings.Join(cols, ", "), strings.Join(vals, ", "))
			if _, err := db.Exec(stmt); err != nil {
				r.Probe("row-insert-rejected")
			} else {
				r.Probe("row-inserted")
			}
		}
	}
}

// refCatalog creates the reference database from the simulator's own DDL and returns its catalog.
func refCatalog(dir string, s *Sch) (map[string]string, error) {
	p := filepath.Join(dir, "ref.db")
	os.Remove(p)
	db := openDB(p, false)
	defer db.Close()
	for _, st := range s.DDL() {
		if _, err := db.Exec(st); err != nil {
			return nil, fmt.Errorf("%w (statement: %s)", err, st)
		}
	}
	return ReadCatalog(db)
}

func changeKinds(changes []schema.Change) string {
	var ks []string
	for _, c := range changes {
		switch c := c.(type) {
		case *schema.ModifyTable:
			var sub []string
			for _, cc := range c.Changes {
				sub = append(sub, strings.TrimPrefix(fmt.Sprintf("%T", cc), "*schema."))
			}
			ks = append(ks, "ModifyTable("+c.T.Name+":"+strings.Join(sub, ",")+")")
		case *schema.AddTable:
			ks = append(ks, "AddTable("+c.T.Name+")")
		case *schema.DropTable:
			ks = append(ks, "DropTable("+c.T.Name+")")
		default:
			ks = append(ks, strings.TrimPrefix(fmt.Sprintf("%T", c), "*schema."))
		}
	}
	return strings.Join(ks, " ")
}

func inspectRealm(ctx context.Context, drv migrate.Driver) *schema.Realm {
	r, err := drv.InspectRealm(ctx, nil)
	if err != nil {
		return nil
	}
	return r
}

// inspectErr inspects again to learn why inspectRealm failed (reported with the violation).
func inspectErr(ctx context.Context, drv migrate.Driver) error {
	_, err := drv.InspectRealm(ctx, nil)
	return err
}

// Walk is the shared scenario of C01, C03, C05 and C17: the same tape gives the same
// walk; prop selects the oracle that is evaluated.
func Walk(prop string) simkit.Scenario {
	return func(r *simkit.Run) { walk(r, prop) }
}

func walk(r *simkit.Run, prop string) {
	t := r.T
	ctx := context.Background()
	dir, err := os.MkdirTemp(os.Getenv("VERIF_SCRATCH"), "schemasim-")
	if err != nil {
		simkit.Harnessf("mkdtemp: %v", err)
	}
	defer os.RemoveAll(dir)
	w := &world{path: filepath.Join(dir, "live.db"), fk: t.Chance("foreign-keys-on", 1, 2)}
	w.db = openDB(w.path, w.fk)
	defer w.db.Close()
	obs, err := observe.Open(w.path)
	if err != nil {
		simkit.Harnessf("observer: %v", err)
	}
	defer obs.Close()
	g := &Gen{T: t, NoRefToNamesake: prop != "C01"}
	faultFree := t.Chance("fault-free-run", 1, 3)
	if faultFree {
		r.Tag("fault-free")
	} else {
		r.Tag("fault-injecting")
	}
	indent := t.Chance("indent", 1, 2)
	maxTables := t.Range("max-tables", 1, 4)
	desired := &Sch{}
	// A recorded C01 finding with a name of its own: some table references a table called new_<x>
	// while <x> exists; when <x> is rebuilt in the same plan, the RENAME of its temporary table new_<x>
	// makes SQLite point that reference at <x>. The apply succeeds and the database is not the
	// desired one, whichever of the convergence checks notices first.
	defer func() {
		if sig := r.Signature(); prop == "C01" && refsNamesake(desired) && (strings.HasPrefix(sig, "C01/residual-diff/") || strings.HasPrefix(sig, "C01/catalog-differs-from-reference/") || strings.HasPrefix(sig, "C01/cli-second-apply-not-synced/")) {
			r.Reclass("not-converged/reference-to-a-table-named-like-a-rebuild-temporary")
		}
	}()
	steps := t.Range("steps", 3, 8)
	cell := 0
	valid := func(s *Sch) error {
		_, err := refCatalog(dir, s)
		return err
	}
	// A run may start from a database somebody else created: inline UNIQUE constraints, upper-case
	// type names. Those catalogs are ones Atlas' own planner never writes.
	var constraintIdx [][2]string // (table, index) pairs that stand for UNIQUE constraints of a foreign database
	if t.Chance("legacy-start", 1, 3) {
		legacy := &Sch{}
		collides := false
		for i, n := 0, t.Range("legacy-tables", 1, 2); i < n; i++ {
			tb := g.NewTable(legacy)
			// Names people give: a table of checks, a table of constraints.
			if t.Chance("legacy-table-name-ends-in-a-keyword", 1, 5) {
				old := tb.Name
				tb.Name += []string{"_check", "_constraint", "_references"}[t.Draw("legacy-name-suffix", 3)]
				for _, f := range tb.FKs {
					if f.RefTable == old {
						f.RefTable = tb.Name
					}
				}
			}
			for _, ix := range tb.Idx {
				plain := ix.Unique && ix.Where == ""
				var cols []string
				for _, p := range ix.Parts {
					if p.Expr != "" || p.Desc {
						plain = false
					}
					cols = append(cols, p.Col)
				}
				if plain && t.Chance("inline-unique", 2, 3) {
					ix.Inline = true
					ix.Name = tb.Name + "_" + strings.Join(cols, "_")
				}
			}
			// Two constraints over the same columns would share the normalised name.
			seen := map[string]bool{}
			var keep []*Idx
			for _, ix := range tb.Idx {
				if ix.Inline && seen[ix.Name] {
					continue
				}
				seen[ix.Name] = true
				keep = append(keep, ix)
			}
			tb.Idx = keep
			// A user's own index may carry the very name Atlas derives for a constraint's index
			// (<table>_<columns>; the engine calls that one sqlite_autoindex_*). C03 only: the exports of
			// such a database are checked at step 0 and the walk does not go on from it.
			userIdxCollides := false
			if prop == "C03" && t.Chance("user-index-named-like-a-constraint-index", 1, 10) {
				var inl, other *Idx
				for _, ix := range tb.Idx {
					switch {
					case ix.Inline && inl == nil:
						inl = ix
					case !ix.Inline && other == nil:
						other = ix
					}
				}
				if inl != nil && other != nil {
					other.Name = inl.Name
					userIdxCollides = true
				}
			}
			collides = collides || userIdxCollides
			if t.Chance("lower-case-keywords", 1, 3) {
				tb.LowerKW = true
			}
			if t.Chance("bare-expression-index-parts", 1, 2) {
				tb.BareExpr = true
			}
			if t.Chance("unquoted-identifiers", 1, 3) {
				tb.BareNames = true
			}
			for _, f := range tb.FKs {
				p := legacy.Table(f.RefTable)
				if f.RefTable == tb.Name {
					p = tb
				}
				if p != nil && strings.Join(p.PK, ",") == strings.Join(f.RefCols, ",") && t.Chance("fk-without-column-list", 1, 3) {
					f.ImplicitCols = true
				}
			}
			legacy.Tables = append(legacy.Tables, tb)
		}
		if valid(legacy) == nil {
			ok := true
			for _, st := range legacy.DDL() {
				if t.Chance("upper-case-ddl", 1, 2) {
					st = upperTypes(st)
				}
				if _, err := obs.Exec(st); err != nil {
					ok = false
					break
				}
			}
			if ok {
				desired = legacy
				r.Probe("legacy-start")
				for _, tb := range legacy.Tables {
					if tb.LowerKW {
						r.Probe("legacy-lower-case-keywords")
						tb.LowerKW = false
					}
					for _, f := range tb.FKs {
						if f.ImplicitCols {
							r.Probe("legacy-fk-without-column-list")
							f.ImplicitCols = false
						}
					}
					if tb.BareNames {
						r.Probe("legacy-unquoted-identifiers")
						tb.BareNames = false
					}
					if strings.Contains(tb.Name, "_c") || strings.Contains(tb.Name, "_r") {
						r.Probe("legacy-table-name-ends-in-a-keyword")
					}
					if tb.BareExpr {
						for _, ix := range tb.Idx {
							for _, p := range ix.Parts {
								if p.Expr != "" {
									r.Probe("legacy-bare-expression-index-part")
								}
							}
						}
						tb.BareExpr = false
					}
					for _, ix := range tb.Idx {
						if ix.Inline {
							r.Probe("legacy-inline-unique-constraint")
							// From now on the model describes what is wanted, not how the legacy DDL wrote it.
							ix.Inline = false
							constraintIdx = append(constraintIdx, [2]string{tb.Name, ix.Name})
						}
					}
				}
				r.Logf("legacy start: %s", legacy.Describe())
				r.Sample("start from a database created by foreign DDL: %s", legacy.Describe())
				// C03 speaks about any database, not only about those Atlas has planned: the exports of
				// the database as the foreign DDL left it are checked before anything is applied to it.
				if prop == "C03" {
					r.Nontrivial()
					if collides {
						r.Probe("legacy-user-index-named-like-a-constraint-index")
						checkExports(ctx, r, w, dir, 0, "user-index-named-like-a-constraint-index")
						r.Reclass("exports-wrong/user-index-named-like-a-constraint-index")
						return
					}
					checkExports(ctx, r, w, dir, 0, "foreign-ddl")
					if r.Failed() {
						return
					}
				}
			}
		}
	}
	for step := 1; step <= steps && !r.Failed(); step++ {
		r.Step()
		// Next desired state: 1-3 elementary edits of the previous one (each kept only if the
		// result is a schema SQLite itself accepts), occasionally a completely fresh schema.
		var edits []string
		next := desired.Clone()
		// The first step on a foreign database often touches what is special about it: the index
		// that stands for a UNIQUE constraint stops being unique, under the very same name.
		if step == 1 && len(constraintIdx) > 0 && t.Chance("constraint-index-stops-being-unique", 1, 3) {
			c := constraintIdx[t.Draw("constraint-index", len(constraintIdx))]
			if tb := next.Table(c[0]); tb != nil {
				for _, ix := range tb.Idx {
					if ix.Name == c[1] {
						ix.Unique = false
						edits = append(edits, "constraint-index-stops-being-unique")
						r.Probe("constraint-index-stops-being-unique")
					}
				}
			}
		}
		if step > 1 && t.Chance("fresh-schema", 1, 12) {
			next = &Sch{}
			edits = append(edits, "fresh")
		}
		for i, n := 0, t.Range("edits", 1, 3); i < n; i++ {
			cand := next.Clone()
			k := g.Edit(cand, maxTables)
			if k == "" {
				continue
			}
			if err := valid(cand); err != nil {
				r.Probe("edit-rejected-by-sqlite")
				continue
			}
			next = cand
			edits = append(edits, k)
		}
		if len(next.Tables) == 0 {
			cand := next.Clone()
			g.Edit(cand, maxTables)
			if valid(cand) == nil {
				next = cand
				edits = append(edits, "add-table")
			}
		}
		// C17: a text default that spans several lines, one of them blank (a reverse statement that
		// re-creates such a column is a statement of several lines before any formatter indents it).
		if prop == "C17" && t.Chance("multi-line-text-default", 1, 8) {
			cand := next.Clone()
		pick:
			for _, tb := range cand.Tables {
				for _, c := range tb.Cols {
					if kindOf(c.Type) == "text" && c.Gen == "" && c.Def == "" {
						c.Def, c.DefExpr = "'first line\n\nthird line'", false
						break pick
					}
				}
			}
			if valid(cand) == nil {
				next = cand
				edits = append(edits, "multi-line-text-default")
			}
		}
		desired = next
		for _, e := range edits {
			r.Probe("edit:" + e)
		}
		// Rows arrive between steps (through the independent connection).
		live := liveModel(desired, obs)
		insertRows(r, obs, live, &cell)
		// Plan.
		mode := []string{"file", "none"}[t.Draw("tx-mode", 2)]
		drv0, err := sqlite.Open(w.db)
		if err != nil {
			simkit.Harnessf("sqlite.Open: %v", err)
		}
		cur := inspectRealm(ctx, drv0)
		if cur == nil {
			ierr := inspectErr(ctx, drv0)
			r.Fail(prop, "inspect", inspectSig(ierr), "step %d: InspectRealm failed on a state reached by the walk: %v", step, ierr)
			return
		}
		want := desired.ToAtlas()
		// Sometimes (C17) the desired state is not written by hand but inspected from another
		// database (`--to sqlite://other.db`) in which plain unique indexes are UNIQUE constraints:
		// the desired graph then carries SQLite's generated index names.
		if prop == "C17" && t.Chance("desired-inspected-from-a-database", 1, 5) {
			if ws := inspectedDesired(ctx, dir, desired, false); ws != nil {
				want = ws
				r.Probe("desired-inspected-from-a-database")
			}
		}
		changes, derr := drv0.RealmDiff(cur, want.Realm, schema.DiffNormalized())
		if derr != nil {
			r.Logf("step %d: diff error %v", step, derr)
			r.Probe("diff-error")
			if prop == "C01" {
				r.Fail(prop, "plan", "diff-error", "step %d: RealmDiff failed: %v; desired %s", step, derr, desired.Describe())
			}
			return
		}
		r.Logf("step %d edits=%v mode=%s changes=[%s]", step, edits, mode, changeKinds(changes))
		r.Sample("step %d: edits %v -> desired %s", step, edits, desired.Describe())
		if len(changes) == 0 {
			r.Probe("no-op-step")
			continue
		}
		plan, perr := drv0.PlanChanges(ctx, "step", changes, planOpts(indent)...)
		if perr != nil {
			r.Logf("step %d: plan error %v", step, perr)
			r.Probe("plan-error")
			if prop == "C01" {
				r.Fail(prop, "plan", "plan-error", "step %d: PlanChanges failed for a supported change set [%s]: %v", step, changeKinds(changes), perr)
			}
			return
		}
		rebuild := false
		for _, c := range plan.Changes {
			if strings.Contains(c.Cmd, "RENAME TO") {
				rebuild = true
			}
		}
		if rebuild {
			r.Probe("rebuild-path")
		} else {
			r.Probe("alter-path")
		}
		// Fault for this step.
		fault, at := "none", 0
		if !faultFree && t.Chance("inject", 1, 2) {
			at = 1 + t.Draw("fault-at", len(plan.Changes))
			fault = []string{"statement-error", "connection-abandoned"}[t.Draw("fault-kind", 2)]
			r.Configured(fault)
		}
		beforeCat, err := ReadCatalog(obs)
		if err != nil {
			simkit.Harnessf("catalog: %v", err)
		}
		beforeRows := readRows(obs)
		beforeDump, _ := observe.ReadDB(obs)
		// A fraction of the fault-free steps goes through the real CLI: the desired state is written as
		// HCL and `atlas schema apply --auto-approve` reconciles the file database.
		viaCLI := t.Chance("apply-through-cli", 1, 5) // drawn for every property so that one tape is one walk
		if viaCLI && fault == "none" && r.Env != nil && r.Env.AtlasBin != "" && (prop == "C01" || prop == "C03") {
			hcl, herr := sqlite.MarshalHCL(want)
			if herr != nil {
				r.Fail(prop, "plan", "desired-hcl-marshal-failed", "step %d: MarshalHCL of the desired schema failed: %v", step, herr)
				return
			}
			hp := filepath.Join(dir, "desired.hcl")
			os.WriteFile(hp, hcl, 0o644)
			url := "sqlite://" + w.path + "?_busy_timeout=5000"
			if w.fk {
				url += "&_fk=1"
			}
			so, se, code := atlas(r.Env.AtlasBin, dir, "schema", "apply", "-u", url, "--to", "file://"+hp, "--auto-approve", "--tx-mode", mode)
			r.Probe("step-applied-through-cli")
			r.Nontrivial()
			r.Logf("  cli schema apply (tx-mode %s) -> exit %d", mode, code)
			r.Sample("  `atlas schema apply --to file://desired.hcl --auto-approve --tx-mode %s` -> exit %d %s", mode, code, errLine(so, se))
			if strings.Contains(se, "goroutine ") && strings.Contains(se, "panic:") {
				r.Fail(prop, "no-crash", "cli-panic/schema-apply", "step %d: schema apply panicked: %s", step, errLine(so, se))
				return
			}
			if code != 0 {
				r.Probe("cli-apply-failed")
				if mode == "file" {
					return // state unknown to the model only if it changed; C13 owns atomicity of this path
				}
				continue
			}
			r.Probe("successful-apply")
			reached := "alter"
			if rebuild {
				reached = "rebuild"
			}
			switch prop {
			case "C01":
				// A second run right after must have nothing to do.
				so2, se2, code2 := atlas(r.Env.AtlasBin, dir, "schema", "apply", "-u", url, "--to", "file://"+hp, "--auto-approve")
				if code2 != 0 || !strings.Contains(so2, "Schema is synced") {
					r.Fail(prop, "converged", "cli-second-apply-not-synced/"+reached, "step %d: a second `schema apply` right after a successful one is not a no-op (exit %d): %s\n%s", step, code2, errLine(so2, se2), firstLines(so2, 12))
					return
				}
				fresh := map[string]bool{}
				for _, c := range changes {
					if a, ok := c.(*schema.AddTable); ok {
						if _, existed := beforeCat[a.T.Name]; !existed {
							fresh[a.T.Name] = true
						}
					}
				}
				checkConverged(ctx, r, w, obs, dir, desired, step, reached, fresh)
			case "C03":
				checkExports(ctx, r, w, dir, step, reached)
				checkCLIExports(ctx, r, w, dir, url, step, reached)
			}
			continue
		}
		// Apply, the way `schema apply` does: ApplyChanges inside a transaction (file) or directly (none).
		feq := &faultEQ{}
		if fault == "statement-error" {
			feq.failAt = at
		} else if fault == "connection-abandoned" {
			feq.abandonAfter = at
		}
		var aerr error
		if mode == "file" {
			tx, err := sqlite.OpenTx(ctx, w.db, nil)
			if err != nil {
				// e.g. rows that already violate a foreign key: the transaction is refused.
				// Atlas leaves that transaction open (its process would exit now): the walk ends here.
				r.Probe("transaction-refused")
				r.Logf("  transaction refused: %v", err)
				return
			} else {
				feq.ExecQuerier = tx
				drv, _ := sqlite.Open(feq)
				aerr = drv.ApplyChanges(ctx, changes, planOpts(indent)...)
				if aerr != nil || feq.abandoned {
					tx.Rollback()
					if aerr == nil {
						aerr = errAbandoned
					}
				} else if cerr := tx.Commit(); cerr != nil {
					aerr = cerr
					r.Probe("commit-refused")
				}
			}
		} else {
			feq.ExecQuerier = w.db
			drv, _ := sqlite.Open(feq)
			aerr = drv.ApplyChanges(ctx, changes, planOpts(indent)...)
			if aerr == nil && feq.abandoned {
				aerr = errAbandoned
			}
		}
		if feq.fired != "" {
			r.Fired(feq.fired)
		}
		r.Nontrivial()
		outcome := "ok"
		switch {
		case aerr == nil:
		case feq.fired != "":
			outcome = "injected-failure"
		default:
			outcome = "natural-failure"
		}
		r.Logf("  plan %d stmts reversible=%v fault=%s@%d -> %s", len(plan.Changes), plan.Reversible, fault, at, outcome)
		r.Sample("  plan [%s] (%d statements, tx-mode %s, fault %s@%d) -> %s", changeKinds(changes), len(plan.Changes), mode, fault, at, outcome)
		afterDump, _ := observe.ReadDB(obs)
		if aerr != nil {
			if mode == "file" {
				r.Probe("failed-apply-rolled-back")
				if (prop == "C01" || prop == "C05") && fullDump(afterDump) != fullDump(beforeDump) {
					r.Fail(prop, "failed-apply-atomic", "file-mode-failure-changed-db", "step %d: the apply failed in a transaction (%v) but the database changed", step, aerr)
					return
				}
				if outcome == "natural-failure" {
					// Legitimate only if the data makes the plan impossible: the same plan must work on empty tables.
					r.Probe("natural-failure")
					if prop == "C01" {
						if ok, e2 := retryOnEmpty(ctx, w, obs, changes, indent); !ok {
							sig := "plan-fails-on-empty-tables"
							// Classified by the error that remains on empty tables (the first error may be a
							// legitimate data-dependent one that merely comes earlier in the plan).
							deciding := aerr.Error()
							if e2 != nil {
								deciding = e2.Error()
							}
							if strings.Contains(deciding, "table `new_") && strings.Contains(deciding, "already exists") {
								sig = "temp-table-name-collision"
							}
							if strings.Contains(deciding, "no such index") {
								sig = "drop-of-constraint-backed-index"
							}
							// Index names are global in SQLite: a name that leaves one table and is used on
							// another one has to be dropped before it is created again (recorded finding).
							if strings.Contains(deciding, "create index") && strings.Contains(deciding, "already exists") {
								sig = "index-name-moves-between-tables"
							}
							r.Fail(prop, "plan-executable", sig, "step %d: the planned statements fail even with all rows removed: %v (first error: %v); changes [%s]; plan:\n%s", step, e2, aerr, changeKinds(changes), planText(plan))
						} else {
							r.Probe("natural-failure-is-data-dependent")
						}
					}
					return
				}
			} else {
				r.Probe("failed-apply-left-intermediate-state")
				if outcome == "natural-failure" {
					r.Probe("natural-failure")
				}
			}
			continue
		}
		r.Probe("successful-apply")
		afterCat, err := ReadCatalog(obs)
		if err != nil {
			simkit.Harnessf("catalog: %v", err)
		}
		reached := "alter"
		if rebuild {
			reached = "rebuild"
		}
		switch prop {
		case "C01":
			fresh := map[string]bool{}
			for _, c := range changes {
				if a, ok := c.(*schema.AddTable); ok {
					if _, existed := beforeCat[a.T.Name]; !existed {
						fresh[a.T.Name] = true
					}
				}
			}
			checkConverged(ctx, r, w, obs, dir, desired, step, reached, fresh)
		case "C05":
			checkRows(r, beforeRows, readRows(obs), changes, step, reached)
			// A differ never proposes a rename; a user (or a diff hook) does. A hand-written change list that
			// renames one column and drops another is planned and run inside a transaction that is rolled
			// back: the renamed column survives, so its values must.
			if !r.Failed() && t.Chance("hand-written-rename-with-drop", 1, 4) {
				checkRenameRows(ctx, r, w, step)
			}
		case "C03":
			checkExports(ctx, r, w, dir, step, reached)
		case "C17":
			checkReverse(ctx, r, w, obs, plan, changes, beforeCat, afterCat, cur, step, indent)
			// A differ never proposes a rename; a user (or a diff hook) does. Such a hand-written change is
			// planned, executed and reversed on the state just reached, which it leaves as it found it.
			if !r.Failed() && t.Chance("hand-written-rename", 1, 5) {
				checkRename(ctx, r, w, obs, step, indent)
			}
		}
	}
}

func fullDump(d *observe.Dump) string { return d.Digest() + "\n" + strings.Join(d.Master, "\n") }

func planText(p *migrate.Plan) string {
	var b strings.Builder
	for _, c := range p.Changes {
		b.WriteString(c.Cmd)
		b.WriteString(";\n")
	}
	return b.String()
}

// liveModel restricts the desired model to what exists in the live database right now
// (rows are inserted into the current tables, before the step's plan runs).
func liveModel(desired *Sch, obs *sql.DB) *Sch {
	// The rows go into the tables as they are now; derive a minimal model from the catalog.
	out := &Sch{}
	rs, err := obs.Query("SELECT name FROM sqlite_master WHERE type='table' AND name NOT LIKE 'sqlite_%' ORDER BY name")
	if err != nil {
		simkit.Harnessf("tables: %v", err)
	}
	var names []string
	for rs.Next() {
		var n string
		rs.Scan(&n)
		names = append(names, n)
	}
	rs.Close()
	for _, n := range names {
		tb := &Tbl{Name: n}
		cs, err := obs.Query("SELECT name, lower(type), \"notnull\", hidden FROM pragma_table_xinfo(?) ORDER BY cid", n)
		if err != nil {
			simkit.Harnessf("xinfo: %v", err)
		}
		for cs.Next() {
			var c, ty string
			var nn, h int
			cs.Scan(&c, &ty, &nn, &h)
			col := &Col{Name: c, Type: ty, Null: nn == 0}
			if h >= 2 {
				col.Gen = "x"
			}
			tb.Cols = append(tb.Cols, col)
		}
		cs.Close()
		// Single-column foreign keys: child rows get real references (composite ones stay NULL).
		fs, err := obs.Query("SELECT \"from\", \"table\", coalesce(\"to\", ''), (SELECT count(*) FROM pragma_foreign_key_list(?) f2 WHERE f2.id = f.id) FROM pragma_foreign_key_list(?) f WHERE seq = 0", n, n)
		if err == nil {
			for fs.Next() {
				var c, rt, rc string
				var parts int
				fs.Scan(&c, &rt, &rc, &parts)
				fk := &FK{Cols: []string{c}}
				if parts == 1 && rc != "" {
					fk.RefTable, fk.RefCols = rt, []string{rc}
				}
				tb.FKs = append(tb.FKs, fk)
			}
			fs.Close()
		}
		out.Tables = append(out.Tables, tb)
	}
	return out
}

// retryOnEmpty removes every row and applies the same changes again in a transaction.
func retryOnEmpty(ctx context.Context, w *world, obs *sql.DB, changes []schema.Change, indent bool) (bool, error) {
	rs, err := obs.Query("SELECT name FROM sqlite_master WHERE type='table' AND name NOT LIKE 'sqlite_%'")
	if err != nil {
		return false, err
	}
	var names []string
	for rs.Next() {
		var n string
		rs.Scan(&n)
		names = append(names, n)
	}
	rs.Close()
	obs.Exec("PRAGMA foreign_keys = off")
	for _, n := range names {
		if _, err := obs.Exec("DELETE FROM " + q(n)); err != nil {
			return false, err
		}
	}
	tx, err := sqlite.OpenTx(ctx, w.db, nil)
	if err != nil {
		return false, err
	}
	drv, _ := sqlite.Open(tx)
	if err := drv.ApplyChanges(ctx, changes, planOpts(indent)...); err != nil {
		tx.Rollback()
		return false, err
	}
	return tx.Commit() == nil, nil
}

// ambiguousIndexNames reports whether some table of the realm has two indexes of one name.
func ambiguousIndexNames(r *schema.Realm) bool {
	for _, s := range r.Schemas {
		for _, t := range s.Tables {
			seen := map[string]bool{}
			for _, ix := range t.Indexes {
				if seen[ix.Name] {
					return true
				}
				seen[ix.Name] = true
			}
		}
	}
	return false
}

// refsNamesake reports whether some table of s references another table called new_<x> while <x> is
// a table of s too.
func refsNamesake(s *Sch) bool {
	for _, tb := range s.Tables {
		for _, f := range tb.FKs {
			if strings.HasPrefix(f.RefTable, "new_") && f.RefTable != "new_"+tb.Name && s.Table(strings.TrimPrefix(f.RefTable, "new_")) != nil {
				return true
			}
		}
	}
	return false
}

// checkConverged is the C01 oracle after a successful apply.
func checkConverged(ctx context.Context, r *simkit.Run, w *world, obs *sql.DB, dir string, desired *Sch, step int, reached string, fresh map[string]bool) {
	const prop = "C01"
	drv, _ := sqlite.Open(w.db)
	cur := inspectRealm(ctx, drv)
	if cur == nil {
		ierr := inspectErr(ctx, drv)
		r.Fail(prop, "inspect", inspectSig(ierr), "step %d: InspectRealm failed after a successful apply: %v", step, ierr)
		return
	}
	want := desired.ToAtlas()
	// The difference from the desired schema (the plan `schema apply` would compute next) is empty.
	fwd, err1 := drv.RealmDiff(cur, want.Realm, schema.DiffNormalized())
	if err1 != nil {
		r.Fail(prop, "converged", "diff-error-after-apply", "step %d: diff after apply failed: %v", step, err1)
		return
	}
	r.Probe("converged-check/" + reached)
	if len(fwd) > 0 {
		r.Fail(prop, "converged", "residual-diff/"+reached, "step %d: after a successful apply the difference to the desired schema is not empty: [%s]; desired %s", step, changeKinds(fwd), desired.Describe())
		return
	}
	if back, err := drv.RealmDiff(want.Realm, cur, schema.DiffNormalized()); err == nil && len(back) > 0 {
		r.Probe("reverse-direction-diff-not-empty") // differ asymmetry: C02 territory, not a convergence failure
	}
	// The same desired state given as a database (`--to sqlite://other.db`, or a SQL file through the
	// dev database), in which plain unique indexes are UNIQUE constraints with the engine's names: the
	// database just reached is in sync with that description of it as well.
	if r.T.Chance("converged-against-inspected-desired", 1, 3) {
		if ws := inspectedDesired(ctx, dir, desired, true); ws != nil {
			fwd2, err := drv.RealmDiff(cur, ws.Realm, schema.DiffNormalized())
			r.Probe("converged-check-against-inspected-desired")
			if err == nil && len(fwd2) > 0 {
				r.Fail(prop, "converged", "residual-diff-to-inspected-desired/"+reached, "step %d: after a successful apply the difference to the desired schema, read from a database that holds it, is not empty: [%s]; desired %s", step, changeKinds(fwd2), desired.Describe())
				return
			}
		}
	}
	// The live catalog equals the catalog of a database created from the desired schema by the
	// simulator's own DDL: keeps the check meaningful if the differ itself goes blind.
	ref, err := refCatalog(dir, desired)
	if err != nil {
		simkit.Harnessf("reference database: %v", err)
	}
	live, err := ReadCatalog(obs)
	if err != nil {
		simkit.Harnessf("catalog: %v", err)
	}
	if d := DiffCatalogsRelaxed(live, ref, fresh); d != "" {
		r.Fail(prop, "catalog", "catalog-differs-from-reference/"+reached, "step %d: the differ reports no difference, but the live catalog is not the catalog of the desired schema:\n%s\ndesired %s", step, d, desired.Describe())
	}
}

// checkRows is the C05 oracle after a successful apply.
func checkRows(r *simkit.Run, before, after map[string]*tableRows, changes []schema.Change, step int, reached string) {
	const prop = "C05"
	touched := map[string]bool{}
	for _, c := range changes {
		switch c := c.(type) {
		case *schema.ModifyTable:
			touched[c.T.Name] = true
		case *schema.AddTable:
			touched[c.T.Name] = true
		case *schema.DropTable:
			touched[c.T.Name] = true
		}
	}
	var names []string
	for n := range before {
		names = append(names, n)
	}
	sort.Strings(names)
	for _, n := range names {
		b := before[n]
		a, ok := after[n]
		if !ok {
			if !touched[n] {
				r.Fail(prop, "untouched-tables", "unrelated-table-dropped", "step %d: table %s is not part of the change set but disappeared", step, n)
				return
			}
			continue // dropped by the plan
		}
		if len(b.rows) > 0 {
			r.Probe("populated-table-checked/" + reached)
		}
		if len(a.rows) != len(b.rows) {
			sig := "rows-lost/" + reached
			common := 0
			for _, c := range b.cols {
				if a.types[c] != "" {
					common++
				}
			}
			if common == 0 {
				sig = "rows-lost/no-common-column"
			}
			r.Fail(prop, "row-count", sig, "step %d: table %s had %d rows before the apply and has %d after (columns before %v, after %v)", step, n, len(b.rows), len(a.rows), b.cols, a.cols)
			return
		}
		var surv []string
		for _, c := range b.cols {
			if a.types[c] == "" || a.types[c] != b.types[c] {
				continue
			}
			// A column that is generated afterwards holds what its expression says, not what it held;
			// a column that was generated and becomes a regular one keeps the values it had.
			if a.gen[c] {
				continue
			}
			if b.gen[c] {
				r.Probe("generated-column-became-regular")
			}
			// A nullable column that became NOT NULL cannot keep its NULLs.
			if b.null[c] && !a.null[c] {
				hasNull := false
				for _, row := range b.rows {
					if row[c] == "NULL" {
						hasNull = true
					}
				}
				if hasNull {
					continue
				}
			}
			found := false
			for _, ac := range a.cols {
				if ac == c {
					found = true
				}
			}
			if found {
				surv = append(surv, c)
			}
		}
		pb, pa := project(b, surv), project(a, surv)
		if strings.Join(pb, "\n") != strings.Join(pa, "\n") {
			what := "touched-table"
			if !touched[n] {
				what = "untouched-table"
			}
			r.Fail(prop, "values", "values-changed/"+what+"/"+reached, "step %d: table %s, columns %v (same name and type before and after): rows before\n%s\nrows after\n%s", step, n, surv, strings.Join(pb, "\n"), strings.Join(pa, "\n"))
			return
		}
	}
}

// checkExports is the C03 oracle on the state a successful apply reached.
func checkExports(ctx context.Context, r *simkit.Run, w *world, dir string, step int, reached string) {
	const prop = "C03"
	drv, _ := sqlite.Open(w.db)
	s1, err := drv.InspectSchema(ctx, "", nil)
	if err != nil {
		r.Fail(prop, "inspect", inspectSig(err), "step %d: InspectSchema failed: %v", step, err)
		return
	}
	r.Probe("export-check/" + reached)
	hcl1, err := sqlite.MarshalHCL(s1)
	if err != nil {
		r.Fail(prop, "hcl-export", "marshal-failed", "step %d: MarshalHCL of the inspected schema failed: %v", step, err)
		return
	}
	// Twice the same.
	s1b, _ := drv.InspectSchema(ctx, "", nil)
	hcl1b, _ := sqlite.MarshalHCL(s1b)
	if string(hcl1) != string(hcl1b) {
		r.Fail(prop, "stable", "hcl-differs-between-inspections", "step %d: two inspections of the unchanged database give different HCL", step)
		return
	}
	var s2 schema.Schema
	if err := sqlite.EvalHCLBytes(hcl1, &s2, nil); err != nil {
		r.Fail(prop, "hcl-export", "eval-failed", "step %d: the exported HCL does not evaluate: %v\n%s", step, err, hcl1)
		return
	}
	fwd, err1 := drv.SchemaDiff(s1, &s2, schema.DiffNormalized())
	back, err2 := drv.SchemaDiff(&s2, s1, schema.DiffNormalized())
	if err1 != nil || err2 != nil {
		r.Fail(prop, "hcl-export", "diff-error", "step %d: diff against the evaluated HCL failed: %v %v", step, err1, err2)
		return
	}
	if len(fwd) > 0 || len(back) > 0 {
		r.Fail(prop, "hcl-export", "hcl-roundtrip-diff/"+reached, "step %d: evaluating the exported HCL does not give the inspected schema: forward [%s] backward [%s]\n%s", step, changeKinds(fwd), changeKinds(back), hcl1)
		return
	}
	// The differ has documented blind spots (AUTOINCREMENT, type names inside a class, ...). To see
	// what the HCL document really says, the evaluated schema is also created on a fresh engine and
	// its observer catalog compared with the original's.
	s2.Name = "main"
	if hchanges, err := drv.SchemaDiff(schema.New("main"), &s2); err == nil && len(hchanges) > 0 {
		hplan, err := drv.PlanChanges(ctx, "hcl", hchanges)
		if err != nil {
			r.Fail(prop, "hcl-export", "hcl-plan-error", "step %d: planning the evaluated HCL failed: %v", step, err)
			return
		}
		hp := filepath.Join(dir, "hclexport.db")
		os.Remove(hp)
		hdb := openDB(hp, false)
		for _, c := range hplan.Changes {
			if _, err := hdb.Exec(c.Cmd); err != nil {
				hdb.Close()
				r.Fail(prop, "hcl-export", "hcl-export-not-creatable/"+reached, "step %d: the schema the exported HCL describes cannot be created: %v\nstatement: %s\n%s", step, err, c.Cmd, hcl1)
				return
			}
		}
		hcat, err := ReadCatalog(hdb)
		hdb.Close()
		if err != nil {
			simkit.Harnessf("catalog: %v", err)
		}
		hobs, _ := observe.Open(w.path)
		lcat, err := ReadCatalog(hobs)
		hobs.Close()
		if err != nil {
			simkit.Harnessf("catalog: %v", err)
		}
		// Size/precision parameters are not part of Atlas' SQLite types (the catalog drops them), a
		// UNIQUE constraint comes back as a unique index: compared under those two equivalences only.
		if d := DiffCatalogs(unifyUnique(hcat), unifyUnique(lcat)); d != "" {
			r.Fail(prop, "hcl-export", "hcl-export-catalog-differs/"+reached, "step %d: the database created from the exported HCL differs from the original (live = recreated, want = original):\n%s\n%s", step, d, hcl1)
			return
		}
		r.Probe("hcl-export-recreated")
	}
	// SQL export = plan(empty -> inspected) in dump mode, executed on a fresh engine.
	realm := inspectRealm(ctx, drv)
	changes, err := drv.RealmDiff(schema.NewRealm(schema.New("main")), realm)
	if err != nil {
		r.Fail(prop, "sql-export", "diff-error", "step %d: diff(empty, inspected) failed: %v", step, err)
		return
	}
	if len(changes) == 0 {
		return
	}
	plan, err := drv.PlanChanges(ctx, "dump", changes, func(o *migrate.PlanOptions) { o.Mode = migrate.PlanModeDump; o.Indent = "  " })
	if err != nil {
		r.Fail(prop, "sql-export", "plan-error", "step %d: planning the SQL export failed: %v", step, err)
		return
	}
	p := filepath.Join(dir, "export.db")
	os.Remove(p)
	edb := openDB(p, false)
	defer edb.Close()
	for _, c := range plan.Changes {
		if _, err := edb.Exec(c.Cmd); err != nil {
			r.Fail(prop, "sql-export", "export-not-executable/"+reached, "step %d: the SQL export fails on an empty database: %v\nstatement: %s", step, err, c.Cmd)
			return
		}
	}
	edrv, _ := sqlite.Open(edb)
	s3, err := edrv.InspectSchema(ctx, "", nil)
	if err != nil {
		r.Fail(prop, "sql-export", "inspect-failed", "step %d: inspecting the recreated database failed: %v", step, err)
		return
	}
	fwd, _ = drv.SchemaDiff(s1, s3, schema.DiffNormalized())
	back, _ = drv.SchemaDiff(s3, s1, schema.DiffNormalized())
	if len(fwd) > 0 || len(back) > 0 {
		r.Fail(prop, "sql-export", "sql-roundtrip-diff/"+reached, "step %d: the database recreated from the SQL export differs: forward [%s] backward [%s]\n%s", step, changeKinds(fwd), changeKinds(back), planText(plan))
		return
	}
	obs, _ := observe.Open(w.path)
	defer obs.Close()
	live, err := ReadCatalog(obs)
	if err != nil {
		simkit.Harnessf("catalog: %v", err)
	}
	exp, err := ReadCatalog(edb)
	if err != nil {
		simkit.Harnessf("catalog: %v", err)
	}
	exp, live = unifyConstraints(exp, live)
	if d := DiffCatalogs(exp, live); d != "" {
		r.Fail(prop, "sql-export", "sql-export-catalog-differs/"+reached, "step %d: the catalog of the database recreated from the SQL export differs from the original (live = recreated, want = original):\n%s", step, d)
	}
}

// checkReverse is the C17 oracle: up then down restores the starting schema; down files hold the reverse statements.
var reCreateIdx = regexp.MustCompile("^CREATE (?:UNIQUE )?INDEX `([^`]+)` ON `([^`]+)`")

func checkReverse(ctx context.Context, r *simkit.Run, w *world, obs *sql.DB, plan *migrate.Plan, changes []schema.Change, beforeCat, afterCat map[string]string, start *schema.Realm, step int, indent bool) {
	const prop = "C17"
	allHave := true
	var rev []string
	for i := len(plan.Changes) - 1; i >= 0; i-- {
		st, err := plan.Changes[i].ReverseStmts()
		if err != nil {
			r.Fail(prop, "reverse", "reverse-stmts-error", "step %d: %v", step, err)
			return
		}
		// The PRAGMA foreign_keys statements that frame a plan are not schema changes.
		if len(st) == 0 && !strings.HasPrefix(plan.Changes[i].Cmd, "PRAGMA foreign_keys") {
			allHave = false
		}
		rev = append(rev, st...)
	}
	if plan.Reversible && !allHave {
		r.Fail(prop, "reversible-flag", "irreversible-plan-flagged-reversible", "step %d: the plan is reported reversible but a change has no reverse statement:\n%s", step, planText(plan))
		return
	}
	if !plan.Reversible {
		r.Probe("irreversible-plan")
		return
	}
	r.Probe("reversible-plan")
	// Down files of every formatter.
	want := ""
	for _, s := range rev {
		want += s + ";"
	}
	for name, f := range map[string]migrate.Formatter{"golang-migrate": sqltool.GolangMigrateFormatter, "goose": sqltool.GooseFormatter, "dbmate": sqltool.DBMateFormatter, "flyway": sqltool.FlywayFormatter} {
		files, err := f.Format(plan)
		if err != nil {
			r.Fail(prop, "down-file", "format-error/"+name, "step %d: %s formatter failed: %v", step, name, err)
			return
		}
		down := ""
		switch name {
		case "golang-migrate", "flyway":
			for _, fl := range files {
				if strings.HasSuffix(fl.Name(), ".down.sql") || strings.HasPrefix(fl.Name(), "U") {
					down = string(fl.Bytes())
				}
			}
		case "goose":
			down = afterMarker(string(files[0].Bytes()), "-- +goose Down")
		case "dbmate":
			down = afterMarker(string(files[0].Bytes()), "-- migrate:down")
		}
		if got := stripComments(down); norm(got) != norm(want) {
			r.Fail(prop, "down-file", "down-file-differs/"+name, "step %d: the %s down section is not the reverse statements in reverse order:\ngot:\n%s\nwant:\n%s", step, name, got, strings.Join(rev, ";\n"))
			return
		}
	}
	// Liquibase: every changeset carries its own change's reverse statements as --rollback lines.
	files, err := sqltool.LiquibaseFormatter.Format(plan)
	if err != nil {
		r.Fail(prop, "down-file", "format-error/liquibase", "step %d: liquibase formatter failed: %v", step, err)
		return
	}
	sets := strings.Split(string(files[0].Bytes()), "--changeset ")[1:]
	if len(sets) != len(plan.Changes) {
		r.Fail(prop, "down-file", "liquibase-changesets", "step %d: %d changesets for %d changes", step, len(sets), len(plan.Changes))
		return
	}
	for i, cs := range sets {
		st, _ := plan.Changes[i].ReverseStmts()
		wantRB := ""
		for _, s := range st {
			wantRB += s + ";"
		}
		gotRB := ""
		live := ""
		var gotLines, wantLines []string
		for _, x := range st {
			wantLines = append(wantLines, strings.Split(x+";", "\n")...)
		}
		for k, l := range strings.Split(cs, "\n") {
			switch {
			case k == 0:
			case strings.HasPrefix(l, "--rollback: "):
				gotRB += strings.TrimPrefix(l, "--rollback: ")
				gotLines = append(gotLines, strings.TrimPrefix(l, "--rollback: "))
			case strings.HasPrefix(l, "--"):
			default:
				live += l
			}
		}
		if norm(live) != norm(plan.Changes[i].Cmd+";") || norm(gotRB) != norm(wantRB) {
			sig := "liquibase-rollback-differs"
			if strings.Contains(wantRB, "\n") {
				sig = "liquibase-multiline-rollback"
			}
			r.Fail(prop, "down-file", sig, "step %d: liquibase changeset %d: executable part %q (want the change's statement %q), rollback %q (want %q)", step, i+1, live, plan.Changes[i].Cmd+";", gotRB, wantRB)
			return
		}
		// Line by line: the rollback of a changeset is its reverse statements, each of their lines
		// behind a "--rollback: " prefix, blank lines (inside a literal) included.
		if strings.Join(gotLines, "\n") != strings.Join(wantLines, "\n") {
			r.Fail(prop, "down-file", "liquibase-rollback-lines-differ", "step %d: liquibase changeset %d: the --rollback lines %q are not the lines of the reverse statements %q", step, i+1, gotLines, wantLines)
			return
		}
	}
	// Down on the real database.
	for _, s := range rev {
		if _, err := w.db.ExecContext(ctx, s); err != nil {
			sig := "reverse-statement-fails"
			// A recorded finding with a name of its own: the plan created a table before the table it
			// references (SQLite's planner keeps the order of the change set); in reverse order the
			// referenced table is dropped first, and with foreign keys enforced the DROP of the
			// referencing one then fails on the missing parent.
			if strings.HasPrefix(s, "DROP TABLE") && strings.Contains(err.Error(), "no such table: main.") {
				sig = "reverse-statement-fails/drop-of-referencing-table-after-its-parent"
			}
			// Another recorded finding (the C17 face of C01's index-name-moves-between-tables): the plan
			// itself creates an index of this name on another table — index names are global in SQLite —
			// and in reverse order the dropped table's index is re-created before that one is dropped.
			if m := reCreateIdx.FindStringSubmatch(s); m != nil && strings.Contains(err.Error(), "already exists") {
				for _, c := range plan.Changes {
					if f := reCreateIdx.FindStringSubmatch(c.Cmd); f != nil && f[1] == m[1] && f[2] != m[2] {
						sig = "reverse-statement-fails/index-name-moves-between-tables"
					}
				}
			}
			// And a third one (the C17 face of C03's user-index-named-like-a-constraint-index): the
			// reverse statements themselves create two indexes of one name, because the table held a
			// constraint's index under its normalised name next to an index that really has that name.
			if m := reCreateIdx.FindStringSubmatch(s); m != nil && strings.Contains(err.Error(), "already exists") {
				n := 0
				for _, x := range rev {
					if f := reCreateIdx.FindStringSubmatch(x); f != nil && f[1] == m[1] {
						n++
					}
				}
				if n >= 2 {
					sig = "reverse-statement-fails/two-indexes-share-a-normalised-name"
				}
			}
			r.Fail(prop, "down", sig, "step %d: reverse statement fails: %v\nstatement: %s\nplan:\n%s", step, err, s, planText(plan))
			return
		}
	}
	r.Probe("down-executed")
	drv, _ := sqlite.Open(w.db)
	back := inspectRealm(ctx, drv)
	fwd, err1 := drv.RealmDiff(start, back, schema.DiffNormalized())
	bwd, err2 := drv.RealmDiff(back, start, schema.DiffNormalized())
	// A table that holds two indexes of one name (a constraint's index under its normalised name next
	// to an index that really has that name: the recorded finding of C03) has no unambiguous
	// description; which of the two a diff pairs with which depends on their order in the catalog.
	// For such a start state only the catalog comparison below decides.
	if ambiguousIndexNames(start) {
		r.Probe("reverse-compared-by-catalog-only/ambiguous-index-names")
		fwd, bwd, err1, err2 = nil, nil, nil, nil
	}
	if err1 != nil || err2 != nil || len(fwd) > 0 || len(bwd) > 0 {
		r.Fail(prop, "down", "down-does-not-restore-schema", "step %d: after up then down the schema differs from the start: [%s] / [%s] (%v %v)\nup:\n%s\ndown:\n%s", step, changeKinds(fwd), changeKinds(bwd), err1, err2, planText(plan), strings.Join(rev, ";\n"))
		return
	}
	cat, err := ReadCatalog(obs)
	if err != nil {
		simkit.Harnessf("catalog: %v", err)
	}
	if d := DiffCatalogsRelaxed(cat, beforeCat, nil); d != "" {
		r.Fail(prop, "down", "down-catalog-differs", "step %d: after up then down the catalog differs from the starting catalog:\n%s", step, d)
		return
	}
	// Up again so that the walk continues from the desired state.
	for _, c := range plan.Changes {
		if _, err := w.db.ExecContext(ctx, c.Cmd, c.Args...); err != nil {
			r.Fail(prop, "down", "up-after-down-fails", "step %d: re-applying the plan after down fails: %v\nstatement: %s", step, err, c.Cmd)
			return
		}
	}
}

// checkRename plans RENAME TABLE or RENAME COLUMN for a table of the live database (a change list
// written by hand), runs it, and hands the plan to checkReverse; afterwards the rename is taken back,
// so that the walk goes on from the state its model describes.
func checkRename(ctx context.Context, r *simkit.Run, w *world, obs *sql.DB, step int, indent bool) {
	t := r.T
	drv, err := sqlite.Open(w.db)
	if err != nil {
		simkit.Harnessf("sqlite.Open: %v", err)
	}
	start, next := inspectRealm(ctx, drv), inspectRealm(ctx, drv)
	if start == nil || next == nil || len(start.Schemas) != 1 || len(start.Schemas[0].Tables) == 0 {
		return
	}
	ti := t.Draw("rename-table", len(start.Schemas[0].Tables))
	from, to := start.Schemas[0].Tables[ti], next.Schemas[0].Tables[ti]
	var changes []schema.Change
	what := ""
	// A third hand-written change: DROP TABLE of a table whose AUTOINCREMENT start the caller states
	// through the Go API (sqlite.AutoIncrement{Seq: n}; no inspection ever sets it). The reverse is
	// then CREATE TABLE, a row for sqlite_sequence where the connection has none, and the indexes.
	if seqT := autoIncTables(start.Schemas[0]); len(seqT) > 0 && t.Chance("drop-a-table-with-a-sequence-start", 1, 3) {
		from = seqT[t.Draw("sequence-table", len(seqT))]
		seq := int64(1 + t.Draw("sequence-start", 500))
		for _, a := range from.PrimaryKey.Parts[0].C.Attrs {
			if inc, ok := a.(*sqlite.AutoIncrement); ok {
				inc.Seq = seq
			}
		}
		for _, a := range from.PrimaryKey.Attrs {
			if inc, ok := a.(*sqlite.AutoIncrement); ok {
				inc.Seq = seq
			}
		}
		changes = []schema.Change{&schema.DropTable{T: from}}
		what = fmt.Sprintf("drop-with-sequence %s (start %d, %d indexes)", from.Name, seq, len(from.Indexes))
		var n int
		if obs.QueryRow("SELECT count(*) FROM sqlite_sequence WHERE name = ?", from.Name).Scan(&n) != nil || n == 0 {
			r.Probe("hand-written-drop-with-sequence/no-sequence-row-yet")
			if len(from.Indexes) > 0 {
				r.Probe("hand-written-drop-with-sequence/no-sequence-row-yet-and-indexes")
			}
		}
	} else if t.Chance("rename-a-column", 1, 2) {
		var cand []int
		for i, c := range from.Columns {
			gen := false
			for _, a := range c.Attrs {
				if _, ok := a.(*schema.GeneratedExpr); ok {
					gen = true
				}
			}
			if !gen {
				cand = append(cand, i)
			}
		}
		if len(cand) == 0 {
			return
		}
		ci := cand[t.Draw("rename-column", len(cand))]
		to.Columns[ci].Name += "_rn"
		inner := []schema.Change{&schema.RenameColumn{From: from.Columns[ci], To: to.Columns[ci]}}
		what = "column " + from.Name + "." + from.Columns[ci].Name
		// Sometimes the same change list first drops an index (one created by CREATE INDEX) that covers
		// the column: in reverse order the column has its old name back before the index is re-created.
		if t.Chance("drop-an-index-of-the-column-first", 1, 2) {
			for k, ix := range from.Indexes {
				covers := false
				for _, p := range ix.Parts {
					covers = covers || p.C == from.Columns[ci]
				}
				var n int
				if !covers || obs.QueryRow("SELECT count(*) FROM sqlite_master WHERE type = 'index' AND name = ? AND sql IS NOT NULL", ix.Name).Scan(&n) != nil || n != 1 {
					continue
				}
				inner = append([]schema.Change{&schema.DropIndex{I: ix}}, inner...)
				to.Indexes = append(to.Indexes[:k:k], to.Indexes[k+1:]...)
				what += " after dropping its index " + ix.Name
				r.Probe("hand-written-rename/column-with-index-drop")
				break
			}
		}
		changes = []schema.Change{&schema.ModifyTable{T: to, Changes: inner}}
	} else {
		to.Name += "_rn"
		changes = []schema.Change{&schema.RenameTable{From: from, To: to}}
		what = "table " + from.Name
	}
	plan, err := drv.PlanChanges(ctx, "rename", changes, planOpts(indent)...)
	if err != nil {
		r.Probe("hand-written-rename-not-planned")
		return
	}
	beforeCat, err := ReadCatalog(obs)
	if err != nil {
		simkit.Harnessf("catalog: %v", err)
	}
	// Forward, all or nothing (what the engine refuses is not C17's subject).
	tx, err := w.db.BeginTx(ctx, nil)
	if err != nil {
		simkit.Harnessf("begin: %v", err)
	}
	for _, c := range plan.Changes {
		if _, err := tx.ExecContext(ctx, c.Cmd, c.Args...); err != nil {
			tx.Rollback()
			r.Probe("hand-written-rename-refused-by-the-engine")
			return
		}
	}
	if err := tx.Commit(); err != nil {
		simkit.Harnessf("commit: %v", err)
	}
	r.Probe("hand-written-rename/" + strings.Fields(what)[0])
	r.Logf("step %d: hand-written rename of %s: %s", step, what, strings.TrimSpace(planText(plan)))
	r.Sample("step %d: a hand-written change renames %s: plan %s", step, what, strings.TrimSpace(planText(plan)))
	checkReverse(ctx, r, w, obs, plan, changes, beforeCat, nil, start, step, indent)
	if r.Failed() || !plan.Reversible {
		if !plan.Reversible && !r.Failed() {
			simkit.Harnessf("a rename plan is not reversible: %s", planText(plan))
		}
		return
	}
	// checkReverse leaves the plan applied: take the rename back.
	for i := len(plan.Changes) - 1; i >= 0; i-- {
		st, _ := plan.Changes[i].ReverseStmts()
		for _, s := range st {
			if _, err := w.db.ExecContext(ctx, s); err != nil {
				simkit.Harnessf("taking the rename back: %v (%s)", err, s)
			}
		}
	}
}

// checkRenameRows hands the planner a change list no differ writes: one column of a table is renamed
// and another is dropped (sometimes the renamed column takes the name of the dropped one). The plan, if
// there is one and the engine accepts it, runs inside a transaction that is always rolled back; the
// values the renamed column held must be the values the column holds under its new name.
func checkRenameRows(ctx context.Context, r *simkit.Run, w *world, step int) {
	const prop = "C05"
	t := r.T
	drv, err := sqlite.Open(w.db)
	if err != nil {
		simkit.Harnessf("sqlite.Open: %v", err)
	}
	start, next := inspectRealm(ctx, drv), inspectRealm(ctx, drv)
	if start == nil || next == nil || len(start.Schemas) != 1 || len(start.Schemas[0].Tables) == 0 {
		return
	}
	ti := t.Draw("rename-with-drop-table", len(start.Schemas[0].Tables))
	from, to := start.Schemas[0].Tables[ti], next.Schemas[0].Tables[ti]
	// Candidates: regular columns outside the primary key.
	var cand []int
	for i, c := range from.Columns {
		plain := true
		for _, a := range c.Attrs {
			if _, ok := a.(*schema.GeneratedExpr); ok {
				plain = false
			}
		}
		if from.PrimaryKey != nil {
			for _, p := range from.PrimaryKey.Parts {
				plain = plain && p.C != c
			}
		}
		if plain {
			cand = append(cand, i)
		}
	}
	if len(cand) < 2 {
		r.Probe("hand-written-rename-with-drop/no-two-plain-columns")
		return
	}
	k := t.Draw("renamed-column", len(cand))
	ai := cand[k]
	cand = append(cand[:k:k], cand[k+1:]...)
	di := cand[t.Draw("dropped-column", len(cand))]
	oldA, oldD := from.Columns[ai], from.Columns[di]
	newName := oldA.Name + "_rn"
	takesName := t.Chance("renamed-column-takes-the-dropped-name", 1, 2)
	if takesName {
		newName = oldD.Name
	}
	newA, gone := to.Columns[ai], to.Columns[di]
	newA.Name = newName
	to.Columns = append(to.Columns[:di:di], to.Columns[di+1:]...)
	// Indexes and foreign keys over the dropped column go with it.
	var ixs []*schema.Index
	for _, ix := range to.Indexes {
		keep := true
		for _, p := range ix.Parts {
			keep = keep && p.C != gone && p.C != nil
		}
		if keep {
			ixs = append(ixs, ix)
		}
	}
	to.Indexes = ixs
	var fks []*schema.ForeignKey
	for _, fk := range to.ForeignKeys {
		keep := true
		for _, c := range fk.Columns {
			keep = keep && c != gone
		}
		if keep {
			fks = append(fks, fk)
		}
	}
	to.ForeignKeys = fks
	inner := []schema.Change{&schema.RenameColumn{From: oldA, To: newA}, &schema.DropColumn{C: oldD}}
	if t.Chance("drop-listed-first", 1, 3) {
		inner[0], inner[1] = inner[1], inner[0]
	}
	what := fmt.Sprintf("%s: rename %s -> %s, drop %s", from.Name, oldA.Name, newName, oldD.Name)
	// Sometimes two columns exchange their names in the same rebuild (a third one is dropped).
	swapped := ""
	if rest := without(cand, di); !takesName && len(rest) > 0 && t.Chance("two-columns-exchange-names", 1, 3) {
		si := rest[t.Draw("exchanged-column", len(rest))]
		oldS := from.Columns[si]
		var newS *schema.Column
		for _, c := range to.Columns {
			if c.Name == oldS.Name {
				newS = c
			}
		}
		if newS != nil {
			newName, swapped = oldS.Name, oldA.Name
			newA.Name, newS.Name = oldS.Name, oldA.Name
			inner = []schema.Change{&schema.RenameColumn{From: oldA, To: newA}, &schema.RenameColumn{From: oldS, To: newS}, &schema.DropColumn{C: oldD}}
			what = fmt.Sprintf("%s: %s and %s exchange their names, drop %s", from.Name, oldA.Name, oldS.Name, oldD.Name)
			r.Probe("hand-written-rename-with-drop/exchange-planned")
		}
	}
	plan, err := drv.PlanChanges(ctx, "rename-with-drop", []schema.Change{&schema.ModifyTable{T: to, Changes: inner}}, planOpts(false)...)
	if err != nil {
		r.Probe("hand-written-rename-with-drop/not-planned")
		if takesName {
			r.Probe("hand-written-rename-with-drop/not-planned/takes-dropped-name")
		}
		r.Logf("step %d: hand-written %s: not planned: %v", step, what, err)
		return
	}
	q := func(s string) string { return "`" + s + "`" }
	// The way Atlas's own SQLite transactions are opened (Driver.OpenTx): foreign keys are switched
	// off *before* BEGIN, because the plan's own PRAGMA is a no-op inside a transaction and a rebuild's
	// DROP TABLE would otherwise act as a DELETE on the rows that reference the table.
	tx, err := w.db.Conn(ctx)
	if err != nil {
		simkit.Harnessf("conn: %v", err)
	}
	defer tx.Close()
	var fkOn int
	if err := tx.QueryRowContext(ctx, "PRAGMA foreign_keys").Scan(&fkOn); err != nil {
		simkit.Harnessf("pragma: %v", err)
	}
	if _, err := tx.ExecContext(ctx, "PRAGMA foreign_keys = off"); err != nil {
		simkit.Harnessf("pragma off: %v", err)
	}
	if _, err := tx.ExecContext(ctx, "BEGIN"); err != nil {
		simkit.Harnessf("begin: %v", err)
	}
	defer func() {
		if _, err := tx.ExecContext(ctx, "ROLLBACK"); err != nil {
			simkit.Harnessf("rollback: %v", err)
		}
		if _, err := tx.ExecContext(ctx, fmt.Sprintf("PRAGMA foreign_keys = %d", fkOn)); err != nil {
			simkit.Harnessf("pragma restore: %v", err)
		}
	}()
	values := func(col string) ([]string, error) {
		rs, err := tx.QueryContext(ctx, fmt.Sprintf("SELECT quote(%s) FROM %s ORDER BY 1", q(col), q(from.Name)))
		if err != nil {
			return nil, err
		}
		defer rs.Close()
		var out []string
		for rs.Next() {
			var v string
			rs.Scan(&v)
			out = append(out, v)
		}
		return out, rs.Err()
	}
	before, err := values(oldA.Name)
	if err != nil {
		simkit.Harnessf("values before: %v", err)
	}
	var beforeS []string
	if swapped != "" {
		if beforeS, err = values(newName); err != nil {
			simkit.Harnessf("values before: %v", err)
		}
	}
	for _, c := range plan.Changes {
		if _, err := tx.ExecContext(ctx, c.Cmd, c.Args...); err != nil {
			r.Probe("hand-written-rename-with-drop/refused-by-the-engine")
			r.Logf("step %d: hand-written %s: engine refuses %s: %v", step, what, c.Cmd, err)
			return
		}
	}
	r.Probe("hand-written-rename-with-drop/executed")
	if len(before) > 0 {
		r.Probe("hand-written-rename-with-drop/executed-on-populated-table")
	}
	r.Sample("step %d: a hand-written change list (%s): plan %s", step, what, strings.TrimSpace(planText(plan)))
	after, err := values(newName)
	if err != nil {
		r.Fail(prop, "renamed-column-values", "renamed-column-missing", "step %d: after the hand-written change (%s) column %s cannot be read: %v\nplan:\n%s", step, what, newName, err, planText(plan))
		return
	}
	if swapped != "" {
		r.Probe("hand-written-rename-with-drop/exchange-executed")
		afterS, err := values(swapped)
		if err != nil || strings.Join(beforeS, "\x00") != strings.Join(afterS, "\x00") {
			r.Fail(prop, "renamed-column-values", "exchanged-column-values-lost", "step %d: the hand-written change (%s) was planned and executed, but column %s does not hold what %s held (%v):\nbefore: %v\nafter: %v\nplan:\n%s", step, what, swapped, newName, err, firstStrs(beforeS, 8), firstStrs(afterS, 8), planText(plan))
			return
		}
	}
	if strings.Join(before, "\x00") != strings.Join(after, "\x00") {
		sig := "renamed-column-values-lost"
		if len(before) != len(after) {
			sig = "rows-lost/hand-written-rename-with-drop"
		}
		r.Fail(prop, "renamed-column-values", sig, "step %d: the hand-written change (%s) was planned and executed, but the values of the renamed column were not carried over:\nbefore (%s): %v\nafter (%s): %v\nplan:\n%s", step, what, oldA.Name, firstStrs(before, 8), newName, firstStrs(after, 8), planText(plan))
	}
}

func without(s []int, v int) []int {
	var out []int
	for _, x := range s {
		if x != v {
			out = append(out, x)
		}
	}
	return out
}

func firstStrs(s []string, n int) []string {
	if len(s) > n {
		return s[:n]
	}
	return s
}

// autoIncTables returns the tables of s whose single-column primary key is AUTOINCREMENT.
func autoIncTables(s *schema.Schema) []*schema.Table {
	var out []*schema.Table
	for _, tb := range s.Tables {
		if pk := tb.PrimaryKey; pk != nil && len(pk.Parts) == 1 && pk.Parts[0].C != nil {
			for _, a := range pk.Parts[0].C.Attrs {
				if _, ok := a.(*sqlite.AutoIncrement); ok {
					out = append(out, tb)
				}
			}
		}
	}
	return out
}

func afterMarker(s, marker string) string {
	i := strings.Index(s, marker)
	if i < 0 {
		return ""
	}
	return s[i+len(marker):]
}

func stripComments(s string) string {
	var out []string
	for _, l := range strings.Split(s, "\n") {
		if strings.HasPrefix(strings.TrimSpace(l), "--") {
			continue
		}
		out = append(out, l)
	}
	return strings.Join(out, "\n")
}

// upperTypes writes the type keywords of a CREATE TABLE statement in upper case.
func upperTypes(st string) string {
	// Longer names first (" int" is a prefix of " integer", " date" of " datetime"); the list includes
	// the names Atlas does not know (money, uuid, json: kept verbatim as user-defined types).
	for _, ty := range []string{"integer", "bigint", "tinyint", "int", "text", "real", "double", "float", "blob", "varchar", "char", "boolean", "datetime", "date", "numeric", "decimal", "json", "uuid", "money"} {
		st = strings.ReplaceAll(st, " "+ty, " "+strings.ToUpper(ty))
	}
	return st
}

func firstLines(s string, n int) string {
	l := strings.Split(s, "\n")
	if len(l) > n {
		l = l[:n]
	}
	return strings.Join(l, "\n")
}

// checkCLIExports is the CLI half of the C03 oracle: what `atlas schema inspect` prints (HCL and
// `--format '{{ sql . }}'`) describes exactly the database, and printing twice gives the same bytes.
func checkCLIExports(ctx context.Context, r *simkit.Run, w *world, dir, url string, step int, reached string) {
	const prop = "C03"
	bin := r.Env.AtlasBin
	h1, e1, c1 := atlas(bin, dir, "schema", "inspect", "-u", url)
	h2, _, c2 := atlas(bin, dir, "schema", "inspect", "-u", url)
	r.Probe("cli-export-check")
	if c1 != 0 || c2 != 0 {
		r.Fail(prop, "hcl-export", "cli-inspect-failed", "step %d: schema inspect failed: %s", step, errLine(h1, e1))
		return
	}
	if h1 != h2 {
		r.Fail(prop, "stable", "cli-hcl-differs-between-inspections", "step %d: two `schema inspect` runs on the unchanged database print different HCL", step)
		return
	}
	drv, _ := sqlite.Open(w.db)
	s1, err := drv.InspectSchema(ctx, "", nil)
	if err != nil {
		r.Fail(prop, "inspect", inspectSig(err), "step %d: InspectSchema failed: %v", step, err)
		return
	}
	var s2 schema.Schema
	if err := sqlite.EvalHCLBytes([]byte(h1), &s2, nil); err != nil {
		r.Fail(prop, "hcl-export", "cli-eval-failed", "step %d: the HCL printed by schema inspect does not evaluate: %v\n%s", step, err, h1)
		return
	}
	fwd, _ := drv.SchemaDiff(s1, &s2, schema.DiffNormalized())
	back, _ := drv.SchemaDiff(&s2, s1, schema.DiffNormalized())
	if len(fwd) > 0 || len(back) > 0 {
		r.Fail(prop, "hcl-export", "cli-hcl-roundtrip-diff/"+reached, "step %d: evaluating the HCL printed by schema inspect does not give the database: forward [%s] backward [%s]\n%s", step, changeKinds(fwd), changeKinds(back), h1)
		return
	}
	q1, e3, c3 := atlas(bin, dir, "schema", "inspect", "-u", url, "--format", "{{ sql . }}")
	q2, _, _ := atlas(bin, dir, "schema", "inspect", "-u", url, "--format", "{{ sql . }}")
	if c3 != 0 {
		r.Fail(prop, "sql-export", "cli-sql-inspect-failed", "step %d: schema inspect --format sql failed: %s", step, errLine(q1, e3))
		return
	}
	if q1 != q2 {
		r.Fail(prop, "stable", "cli-sql-differs-between-inspections", "step %d: two `schema inspect --format '{{ sql . }}'` runs print different SQL", step)
		return
	}
	p := filepath.Join(dir, "cliexport.db")
	os.Remove(p)
	edb := openDB(p, false)
	defer edb.Close()
	if strings.TrimSpace(q1) != "" {
		if _, err := edb.Exec(q1); err != nil {
			r.Fail(prop, "sql-export", "cli-export-not-executable/"+reached, "step %d: the SQL printed by schema inspect fails on an empty database: %v\n%s", step, err, q1)
			return
		}
	}
	obs, _ := observe.Open(w.path)
	defer obs.Close()
	live, err := ReadCatalog(obs)
	if err != nil {
		simkit.Harnessf("catalog: %v", err)
	}
	exp, err := ReadCatalog(edb)
	if err != nil {
		simkit.Harnessf("catalog: %v", err)
	}
	exp, live = unifyConstraints(exp, live)
	if d := DiffCatalogs(exp, live); d != "" {
		r.Fail(prop, "sql-export", "cli-sql-export-catalog-differs/"+reached, "step %d: the database recreated from `schema inspect --format '{{ sql . }}'` differs from the original (live = recreated, want = original):\n%s", step, d)
	}
}

// columnValues returns the quoted values of one column, ordered.
func columnValues(db *sql.DB, table, col string) []string {
	rows, err := db.Query("SELECT quote(" + q(col) + ") FROM " + q(table) + " WHERE " + q(col) + " IS NOT NULL ORDER BY 1")
	if err != nil {
		return nil
	}
	defer rows.Close()
	var out []string
	for rows.Next() {
		var v string
		rows.Scan(&v)
		out = append(out, v)
	}
	return out
}

// unifyUnique rewrites only the unique-constraint / unique-index equivalence of Relax.
func unifyUnique(cat map[string]string) map[string]string {
	out := map[string]string{}
	for n, c := range cat {
		lines := strings.Split(c, "\n")
		for i, l := range lines {
			if strings.HasPrefix(l, "index ") && strings.Contains(l, " unique=1 ") && strings.HasSuffix(l, " where=") {
				if k := strings.Index(l, " parts="); k >= 0 {
					rest := l[k:]
					if d := strings.Index(rest, " def="); d >= 0 {
						rest = rest[:d]
					}
					if !strings.Contains(rest, "<expr>") && !strings.Contains(rest, "/1") {
						lines[i] = "index <unique> unique=1" + rest
					}
				}
			}
		}
		sort.Strings(lines)
		out[n] = strings.Join(lines, "\n")
	}
	return out
}

// unifyConstraints applies one equivalence between a recreated database and its original: a
// UNIQUE constraint of the original (which SQLite backs by an automatic index that cannot be
// created by name) may come back as a plain unique index over the same columns. Only constraint
// lines of the original and their counterpart are rewritten; named indexes stay compared by name.
func unifyConstraints(recreated, original map[string]string) (map[string]string, map[string]string) {
	parts := func(l string) string {
		k := strings.Index(l, " parts=")
		if k < 0 {
			return ""
		}
		rest := l[k:]
		if d := strings.Index(rest, " def="); d >= 0 {
			rest = rest[:d]
		}
		return rest
	}
	outR, outO := map[string]string{}, map[string]string{}
	for n, c := range recreated {
		outR[n] = c
	}
	for n, o := range original {
		outO[n] = o
		rc, ok := recreated[n]
		if !ok || !strings.Contains(o, "index <unique-constraint> ") {
			continue
		}
		ol, rl := strings.Split(o, "\n"), strings.Split(rc, "\n")
		for i, l := range ol {
			if !strings.HasPrefix(l, "index <unique-constraint> ") {
				continue
			}
			// The counterpart is a plain unique index over the same columns that the original does not
			// have under that name (an explicit unique index over the same columns keeps its own name
			// on both sides and is not the constraint's counterpart).
			named := map[string]bool{}
			for _, x := range ol {
				named[x] = true
			}
			for j, m := range rl {
				if strings.HasPrefix(m, "index ") && !strings.HasPrefix(m, "index <unique") && strings.Contains(m, " unique=1 ") && strings.HasSuffix(m, " where=") && parts(m) == parts(l) && !named[m] {
					ol[i] = "index <unique> unique=1" + parts(l)
					rl[j] = ol[i]
					break
				}
			}
		}
		sort.Strings(ol)
		sort.Strings(rl)
		outO[n], outR[n] = strings.Join(ol, "\n"), strings.Join(rl, "\n")
	}
	return outR, outO
}

// inspectSig names a failed inspection. One cause is a recorded finding and gets its own name: a
// foreign key written without a column list (REFERENCES parent) whose parent table does not exist
// (legal in SQLite, reached when a parent is dropped by a plan that then fails half way in
// tx-mode none): there is no primary key to take the referenced columns from.
func inspectSig(err error) string {
	if err != nil && strings.Contains(err.Error(), "foreign-keys") && strings.Contains(err.Error(), "converting NULL to string") {
		return "inspect-failed/fk-without-column-list-to-missing-table"
	}
	return "inspect-failed"
}

// inspectedDesired creates the desired schema on a scratch engine, with every plain unique index
// written as a UNIQUE constraint, and returns what Atlas inspects from it.
// With onlyNormalised, only the indexes that already carry the name Atlas gives to a constraint's
// index (<table>_<columns>) are turned into constraints: the description then names the same things.
func inspectedDesired(ctx context.Context, dir string, desired *Sch, onlyNormalised bool) *schema.Schema {
	c := desired.Clone()
	for _, tb := range c.Tables {
		seen := map[string]bool{}
		for _, ix := range tb.Idx {
			plain := ix.Unique && ix.Where == ""
			var cols []string
			for _, p := range ix.Parts {
				if p.Expr != "" || p.Desc {
					plain = false
				}
				cols = append(cols, p.Col)
			}
			if onlyNormalised && ix.Name != tb.Name+"_"+strings.Join(cols, "_") {
				plain = false
			}
			if key := strings.Join(cols, ","); plain && !seen[key] {
				seen[key] = true
				ix.Inline = true
			}
		}
	}
	p := filepath.Join(dir, "want.db")
	os.Remove(p)
	db := openDB(p, false)
	defer db.Close()
	for _, st := range c.DDL() {
		if _, err := db.Exec(st); err != nil {
			return nil
		}
	}
	drv, err := sqlite.Open(db)
	if err != nil {
		return nil
	}
	realm, err := drv.InspectRealm(ctx, nil)
	if err != nil || len(realm.Schemas) != 1 {
		return nil
	}
	return realm.Schemas[0]
}
