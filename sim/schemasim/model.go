// Package schemasim is engine E-C: declarative reconciliation ("Atlas + database" as a
// controller/plant pair) on a real SQLite engine. A run is a random walk of desired
// schemas with rows inserted between steps and plans that fail or are abandoned midway.
package schemasim

import (
	"fmt"
	"sort"
	"strings"

	"ariga.io/atlas/sql/schema"
	"ariga.io/atlas/sql/sqlite"

	"verif/sim/simkit"
)

// Col is a column of the abstract schema model the generator works on.
type Col struct {
	Name      string
	Type      string // raw SQLite type, lower case, e.g. "integer", "varchar(255)"
	Null      bool
	Def       string // default as SQL text ("" = none)
	DefExpr   bool   // the default is an expression, not a literal
	Gen       string // generated-column expression ("" = none)
	GenStored bool
}

// IdxPart is one part of an index.
type IdxPart struct {
	Col  string
	Expr string
	Desc bool
}

// Idx is an index.
type Idx struct {
	Name   string
	Unique bool
	Parts  []IdxPart
	Where  string
	// Inline: in DDL written by somebody else (a "legacy" database) the index is an inline UNIQUE
	// table constraint; SQLite names it sqlite_autoindex_<t>_<n> and Atlas normalises that name to
	// <table>_<columns>, which is the Name the model carries.
	Inline bool
}

// Chk is a CHECK constraint.
type Chk struct{ Name, Expr string }

// FK is a foreign key.
type FK struct {
	Name               string
	Cols               []string
	RefTable           string
	RefCols            []string
	OnUpdate, OnDelete string
	// ImplicitCols: the referenced columns are not listed (REFERENCES parent): they are the
	// parent's primary key. Foreign DDL only.
	ImplicitCols bool
}

// Tbl is a table.
type Tbl struct {
	Name         string
	Cols         []*Col
	PK           []string
	AutoInc      bool
	Idx          []*Idx
	Chk          []*Chk
	FKs          []*FK
	WithoutRowID bool
	Strict       bool
	// LowerKW: this table's DDL spells its keywords in lower case (a database written by hand or by
	// another tool). Only the foreign-DDL start databases use it.
	LowerKW bool
	// BareExpr: expression index parts are written without their own parentheses (foreign DDL only).
	BareExpr bool
	// BareNames: identifiers are written without quotes, the way hand-written DDL usually is (foreign DDL only).
	BareNames bool
}

// Sch is a schema.
type Sch struct{ Tables []*Tbl }

// Clone deep-copies the schema.
func (s *Sch) Clone() *Sch {
	o := &Sch{}
	for _, t := range s.Tables {
		o.Tables = append(o.Tables, t.Clone())
	}
	return o
}

// Clone deep-copies the table.
func (t *Tbl) Clone() *Tbl {
	n := *t
	n.Cols = nil
	for _, c := range t.Cols {
		cc := *c
		n.Cols = append(n.Cols, &cc)
	}
	n.PK = append([]string(nil), t.PK...)
	n.Idx = nil
	for _, i := range t.Idx {
		ii := *i
		ii.Parts = append([]IdxPart(nil), i.Parts...)
		n.Idx = append(n.Idx, &ii)
	}
	n.Chk = nil
	for _, c := range t.Chk {
		cc := *c
		n.Chk = append(n.Chk, &cc)
	}
	n.FKs = nil
	for _, f := range t.FKs {
		ff := *f
		ff.Cols = append([]string(nil), f.Cols...)
		ff.RefCols = append([]string(nil), f.RefCols...)
		n.FKs = append(n.FKs, &ff)
	}
	return &n
}

// Table returns the table by name.
func (s *Sch) Table(name string) *Tbl {
	for _, t := range s.Tables {
		if t.Name == name {
			return t
		}
	}
	return nil
}

// Col returns the column by name.
func (t *Tbl) Col(name string) *Col {
	for _, c := range t.Cols {
		if c.Name == name {
			return c
		}
	}
	return nil
}

func q(s string) string { return `"` + strings.ReplaceAll(s, `"`, `""`) + `"` }

func qs(ss []string) string {
	out := make([]string, len(ss))
	for i, s := range ss {
		out[i] = q(s)
	}
	return strings.Join(out, ", ")
}

// DDL renders the table with the simulator's own, Atlas-independent SQL generator:
// the reference database is created from it.
func (t *Tbl) DDL() []string {
	// k spells a keyword the way this table's author does (LowerKW: lower case).
	k := func(s string) string {
		if t.LowerKW {
			return strings.ToLower(s)
		}
		return s
	}
	q, qs := q, qs
	if t.BareNames {
		q = func(s string) string { return s }
		qs = func(ss []string) string { return strings.Join(ss, ", ") }
	}
	var defs []string
	for _, c := range t.Cols {
		d := q(c.Name) + " " + c.Type
		if t.AutoInc && len(t.PK) == 1 && t.PK[0] == c.Name {
			d += k(" NOT NULL PRIMARY KEY AUTOINCREMENT")
			defs = append(defs, d)
			continue
		}
		if !c.Null {
			d += k(" NOT NULL")
		} else {
			d += k(" NULL")
		}
		if c.Def != "" {
			if c.DefExpr {
				d += k(" DEFAULT (") + c.Def + ")"
			} else {
				d += k(" DEFAULT ") + c.Def
			}
		}
		if c.Gen != "" {
			kind := k("VIRTUAL")
			if c.GenStored {
				kind = k("STORED")
			}
			d += k(" AS (") + c.Gen + ") " + kind
		}
		defs = append(defs, d)
	}
	if len(t.PK) > 0 && !t.AutoInc {
		defs = append(defs, k("PRIMARY KEY (")+qs(t.PK)+")")
	}
	for _, f := range t.FKs {
		d := ""
		if f.Name != "" {
			d = k("CONSTRAINT ") + q(f.Name) + " "
		}
		d += k("FOREIGN KEY (") + qs(f.Cols) + k(") REFERENCES ") + q(f.RefTable)
		if !f.ImplicitCols {
			d += " (" + qs(f.RefCols) + ")"
		}
		if f.OnUpdate != "" {
			d += k(" ON UPDATE ") + f.OnUpdate
		}
		if f.OnDelete != "" {
			d += k(" ON DELETE ") + f.OnDelete
		}
		defs = append(defs, d)
	}
	for _, c := range t.Chk {
		d := ""
		if c.Name != "" {
			d = k("CONSTRAINT ") + q(c.Name) + " "
		}
		defs = append(defs, d+k("CHECK (")+c.Expr+")")
	}
	for _, i := range t.Idx {
		if i.Inline {
			var cols []string
			for _, p := range i.Parts {
				cols = append(cols, p.Col)
			}
			defs = append(defs, k("UNIQUE (")+qs(cols)+")")
		}
	}
	stmt := k("CREATE TABLE ") + q(t.Name) + " (\n  " + strings.Join(defs, ",\n  ") + "\n)"
	var opts []string
	if t.WithoutRowID {
		opts = append(opts, k("WITHOUT ROWID"))
	}
	if t.Strict {
		opts = append(opts, k("STRICT"))
	}
	if len(opts) > 0 {
		stmt += " " + strings.Join(opts, ", ")
	}
	out := []string{stmt}
	for _, i := range t.Idx {
		if i.Inline {
			continue
		}
		var parts []string
		for _, p := range i.Parts {
			s := q(p.Col)
			if p.Expr != "" {
				s = "(" + p.Expr + ")"
				if t.BareExpr {
					s = p.Expr // CREATE INDEX i ON t (lower(c)): the usual way to write it
				}
			}
			if p.Desc {
				s += k(" DESC")
			}
			parts = append(parts, s)
		}
		u := ""
		if i.Unique {
			u = k("UNIQUE ")
		}
		s := k("CREATE ") + u + k("INDEX ") + q(i.Name) + k(" ON ") + q(t.Name) + " (" + strings.Join(parts, ", ") + ")"
		if i.Where != "" {
			s += k(" WHERE ") + i.Where
		}
		out = append(out, s)
	}
	return out
}

// DDL renders the whole schema (tables in an order that satisfies nothing in particular:
// SQLite does not need referenced tables to exist at CREATE time).
func (s *Sch) DDL() []string {
	var out []string
	for _, t := range s.Tables {
		out = append(out, t.DDL()...)
	}
	return out
}

// ToAtlas converts the model to the Atlas schema graph a user's desired state evaluates to.
func (s *Sch) ToAtlas() *schema.Schema {
	as := schema.New("main")
	byName := map[string]*schema.Table{}
	for _, t := range s.Tables {
		at := schema.NewTable(t.Name)
		for _, c := range t.Cols {
			typ, err := sqlite.ParseType(c.Type)
			if err != nil {
				simkit.Harnessf("ParseType(%q): %v", c.Type, err)
			}
			ac := &schema.Column{Name: c.Name, Type: &schema.ColumnType{Type: typ, Raw: c.Type, Null: c.Null}}
			if c.Def != "" {
				if c.DefExpr {
					ac.Default = &schema.RawExpr{X: c.Def}
				} else {
					ac.Default = &schema.Literal{V: c.Def}
				}
			}
			if c.Gen != "" {
				kind := "VIRTUAL"
				if c.GenStored {
					kind = "STORED"
				}
				ac.SetGeneratedExpr(&schema.GeneratedExpr{Expr: c.Gen, Type: kind})
			}
			at.AddColumns(ac)
		}
		if len(t.PK) > 0 {
			var cols []*schema.Column
			for _, n := range t.PK {
				c, _ := at.Column(n)
				cols = append(cols, c)
			}
			pk := schema.NewPrimaryKey(cols...)
			if t.AutoInc {
				pk.AddAttrs(&sqlite.AutoIncrement{})
				cols[0].AddAttrs(&sqlite.AutoIncrement{})
			}
			at.SetPrimaryKey(pk)
		}
		for _, i := range t.Idx {
			ai := schema.NewIndex(i.Name).SetUnique(i.Unique)
			for _, p := range i.Parts {
				part := &schema.IndexPart{Desc: p.Desc}
				if p.Expr != "" {
					part.X = &schema.RawExpr{X: p.Expr}
				} else {
					part.C, _ = at.Column(p.Col)
				}
				ai.AddParts(part)
			}
			if i.Where != "" {
				ai.AddAttrs(&sqlite.IndexPredicate{P: i.Where})
			}
			at.AddIndexes(ai)
		}
		for _, c := range t.Chk {
			at.AddChecks(schema.NewCheck().SetName(c.Name).SetExpr(c.Expr))
		}
		if t.WithoutRowID {
			at.AddAttrs(&sqlite.WithoutRowID{})
		}
		if t.Strict {
			at.AddAttrs(&sqlite.Strict{})
		}
		as.AddTables(at)
		byName[t.Name] = at
	}
	for _, t := range s.Tables {
		at := byName[t.Name]
		for _, f := range t.FKs {
			rt := byName[f.RefTable]
			if rt == nil {
				simkit.Harnessf("fk %s.%s references missing table %s", t.Name, f.Name, f.RefTable)
			}
			afk := &schema.ForeignKey{Symbol: f.Name, Table: at, RefTable: rt, OnUpdate: schema.ReferenceOption(f.OnUpdate), OnDelete: schema.ReferenceOption(f.OnDelete)}
			for _, n := range f.Cols {
				c, _ := at.Column(n)
				afk.Columns = append(afk.Columns, c)
			}
			for _, n := range f.RefCols {
				c, _ := rt.Column(n)
				afk.RefColumns = append(afk.RefColumns, c)
			}
			at.AddForeignKeys(afk)
		}
	}
	schema.NewRealm(as)
	return as
}

// Describe renders a compact description of the schema.
func (s *Sch) Describe() string {
	var ts []string
	for _, t := range s.Tables {
		var cs []string
		for _, c := range t.Cols {
			d := c.Name + ":" + c.Type
			if !c.Null {
				d += "!"
			}
			if c.Def != "" {
				d += "=" + c.Def
			}
			if c.Gen != "" {
				d += fmt.Sprintf(" AS(%s,stored=%v)", c.Gen, c.GenStored)
			}
			cs = append(cs, d)
		}
		extra := ""
		if len(t.PK) > 0 {
			extra += " pk(" + strings.Join(t.PK, ",") + ")"
			if t.AutoInc {
				extra += "+autoinc"
			}
		}
		for _, i := range t.Idx {
			var ps []string
			for _, p := range i.Parts {
				x := p.Col
				if p.Expr != "" {
					x = "(" + p.Expr + ")"
				}
				if p.Desc {
					x += " desc"
				}
				ps = append(ps, x)
			}
			u := "idx"
			if i.Unique {
				u = "uniq"
			}
			w := ""
			if i.Where != "" {
				w = " where " + i.Where
			}
			extra += fmt.Sprintf(" %s %s(%s)%s", u, i.Name, strings.Join(ps, ","), w)
		}
		for _, c := range t.Chk {
			extra += fmt.Sprintf(" check %s(%s)", c.Name, c.Expr)
		}
		for _, f := range t.FKs {
			extra += fmt.Sprintf(" fk %s(%s)->%s(%s)%s%s", f.Name, strings.Join(f.Cols, ","), f.RefTable, strings.Join(f.RefCols, ","), optKV(" upd ", f.OnUpdate), optKV(" del ", f.OnDelete))
		}
		if t.WithoutRowID {
			extra += " WITHOUT-ROWID"
		}
		if t.Strict {
			extra += " STRICT"
		}
		ts = append(ts, fmt.Sprintf("%s{%s%s}", t.Name, strings.Join(cs, " "), extra))
	}
	sort.Strings(ts)
	return strings.Join(ts, " ; ")
}

func optKV(k, v string) string {
	if v == "" {
		return ""
	}
	return k + v
}
