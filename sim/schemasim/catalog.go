package schemasim

import (
	"database/sql"
	"fmt"
	"math/big"
	"regexp"
	"sort"
	"strings"

	"ariga.io/atlas/sql/sqlite"
)

// norm removes quoting and whitespace so that texts written with different quote
// styles compare equal.
func norm(s string) string {
	var b strings.Builder
	for _, r := range strings.ToLower(s) {
		switch r {
		case '"', '`', '[', ']', ' ', '\n', '\t', '\r':
		default:
			b.WriteRune(r)
		}
	}
	return b.String()
}

// stripParens removes redundant outer parentheses.
func stripParens(s string) string {
	s = strings.TrimSpace(s)
	for len(s) >= 2 && s[0] == '(' && s[len(s)-1] == ')' {
		depth, ok := 0, true
		for i, r := range s {
			switch r {
			case '(':
				depth++
			case ')':
				depth--
				if depth == 0 && i != len(s)-1 {
					ok = false
				}
			}
		}
		if !ok {
			break
		}
		s = strings.TrimSpace(s[1 : len(s)-1])
	}
	return s
}

// segments splits the body of a CREATE TABLE statement at top-level commas.
func segments(createSQL string) (segs []string, tail string) {
	i := strings.IndexByte(createSQL, '(')
	if i < 0 {
		return nil, ""
	}
	depth, start := 0, i+1
	var quote rune
	for j, r := range createSQL[i:] {
		p := i + j
		if quote != 0 {
			if r == quote {
				quote = 0
			}
			continue
		}
		switch r {
		case '\'', '"', '`':
			quote = r
		case '(':
			depth++
		case ')':
			depth--
			if depth == 0 {
				segs = append(segs, strings.TrimSpace(createSQL[start:p]))
				return segs, createSQL[p+1:]
			}
		case ',':
			if depth == 1 {
				segs = append(segs, strings.TrimSpace(createSQL[start:p]))
				start = p + 1
			}
		}
	}
	return segs, ""
}

// balancedAfter returns the parenthesised text that starts at the first '(' at or after pos.
func balancedAfter(s string, pos int) string {
	i := strings.IndexByte(s[pos:], '(')
	if i < 0 {
		return ""
	}
	i += pos
	depth := 0
	var quote rune
	for j, r := range s[i:] {
		if quote != 0 {
			if r == quote {
				quote = 0
			}
			continue
		}
		switch r {
		case '\'', '"', '`':
			quote = r
		case '(':
			depth++
		case ')':
			depth--
			if depth == 0 {
				return s[i : i+j+1]
			}
		}
	}
	return ""
}

func firstIdent(seg string) string {
	seg = strings.TrimSpace(seg)
	if seg == "" {
		return ""
	}
	switch seg[0] {
	case '"', '`', '[':
		close := map[byte]byte{'"': '"', '`': '`', '[': ']'}[seg[0]]
		if j := strings.IndexByte(seg[1:], close); j >= 0 {
			return seg[1 : 1+j]
		}
	}
	f := strings.FieldsFunc(seg, func(r rune) bool { return r == ' ' || r == '\t' || r == '\n' || r == '(' })
	if len(f) == 0 {
		return ""
	}
	return f[0]
}

// Catalog is the observer's description of one table, independent of Atlas' inspection.
type Catalog map[string]string

// ReadCatalog describes every user table of the database: table name -> canonical text.
func ReadCatalog(db *sql.DB) (map[string]string, error) {
	rows, err := db.Query("SELECT name, sql FROM sqlite_master WHERE type = 'table' AND name NOT LIKE 'sqlite_%' ORDER BY name")
	if err != nil {
		return nil, err
	}
	type tbl struct{ name, sql string }
	var tbls []tbl
	for rows.Next() {
		var t tbl
		if err := rows.Scan(&t.name, &t.sql); err != nil {
			rows.Close()
			return nil, err
		}
		tbls = append(tbls, t)
	}
	rows.Close()
	out := map[string]string{}
	for _, t := range tbls {
		s, err := tableCatalog(db, t.name, t.sql)
		if err != nil {
			return nil, fmt.Errorf("catalog of %s: %w", t.name, err)
		}
		out[t.name] = s
	}
	return out, nil
}

func tableCatalog(db *sql.DB, name, createSQL string) (string, error) {
	var lines []string
	segs, tail := segments(createSQL)
	colSeg := map[string]string{}
	var checks, fkNames []string
	for _, sg := range segs {
		up := strings.ToUpper(sg)
		switch {
		case strings.HasPrefix(up, "CONSTRAINT"), strings.HasPrefix(up, "CHECK"), strings.HasPrefix(up, "FOREIGN KEY"), strings.HasPrefix(up, "PRIMARY KEY"), strings.HasPrefix(up, "UNIQUE"):
			cname := ""
			rest := sg
			if strings.HasPrefix(up, "CONSTRAINT") {
				rest = strings.TrimSpace(sg[len("CONSTRAINT"):])
				cname = firstIdent(rest)
				// skip the name
				k := strings.Index(rest, cname) + len(cname)
				rest = strings.TrimLeft(rest[k:], "\"`] \t\n")
			}
			ur := strings.ToUpper(rest)
			switch {
			case strings.HasPrefix(ur, "CHECK"):
				checks = append(checks, cname+":"+norm(stripParens(balancedAfter(rest, 0))))
			case strings.HasPrefix(ur, "FOREIGN KEY"):
				fkNames = append(fkNames, cname+":"+norm(balancedAfter(rest, 0)))
			}
		default:
			colSeg[firstIdent(sg)] = sg
		}
	}
	// Columns.
	rows, err := db.Query("SELECT name, type, \"notnull\", coalesce(dflt_value, '<none>'), pk, hidden FROM pragma_table_xinfo(?) ORDER BY name", name)
	if err != nil {
		return "", err
	}
	for rows.Next() {
		var cname, typ, dflt string
		var notnull, pk, hidden int
		if err := rows.Scan(&cname, &typ, &notnull, &dflt, &pk, &hidden); err != nil {
			rows.Close()
			return "", err
		}
		if hidden == 1 {
			continue
		}
		gen := ""
		if hidden >= 2 {
			sg := colSeg[cname]
			up := strings.ToUpper(sg)
			if k := strings.Index(up, " AS "); k >= 0 {
				gen = norm(stripParens(balancedAfter(sg, k)))
			} else if k := strings.Index(up, " AS("); k >= 0 {
				gen = norm(stripParens(balancedAfter(sg, k)))
			}
			gen = fmt.Sprintf(" gen(%d:%s)", hidden, gen)
			// The declared type of a generated column carries "GENERATED ALWAYS" in some forms.
			typ = strings.TrimSpace(strings.Replace(strings.ToLower(typ), "generated always", "", 1))
		}
		// Inline column checks (not generated by Atlas or the reference, kept for completeness).
		// Size / precision parameters are not part of what Atlas' SQLite planner emits nor of what
		// its differ compares (SQLite ignores them too): the base type name is compared.
		base := strings.ToLower(typ)
		if k := strings.IndexByte(base, '('); k >= 0 {
			base = strings.TrimSpace(base[:k])
		}
		// A quoted text keeps its letter case ('Draft' is not 'draft'); anything else (keywords,
		// numbers, expressions) is compared without case, quoting and blanks.
		def := norm(stripParens(dflt))
		if d := strings.TrimSpace(dflt); len(d) >= 2 && d[0] == '\'' && d[len(d)-1] == '\'' {
			def = d
		}
		// On a column without text or blob affinity the spelling of a numeric default (1.0, 1.50,
		// .5, 1e5) is not part of the schema: the number is.
		if up := strings.ToUpper(base); !strings.Contains(up, "CHAR") && !strings.Contains(up, "CLOB") && !strings.Contains(up, "TEXT") && !strings.Contains(up, "BLOB") && up != "" {
			// With more precision than a float64 has: 9007199254740993 is not 9007199254740992.
			if f, _, err := big.ParseFloat(def, 10, 512, big.ToNearestEven); err == nil {
				def = f.Text('g', 40)
			}
		}
		lines = append(lines, fmt.Sprintf("col %s type=%s notnull=%d default=%s pk=%d%s", cname, base, notnull, def, pk, gen))
	}
	rows.Close()
	sort.Strings(checks)
	for _, c := range checks {
		lines = append(lines, "check "+c)
	}
	// Foreign keys.
	// A reference without a column list means the parent's primary key (position by position).
	rows, err = db.Query("SELECT id, seq, \"table\", \"from\", coalesce(\"to\", (SELECT p.name FROM pragma_table_info(fk.\"table\") AS p WHERE p.pk = fk.seq + 1), ''), on_update, on_delete FROM pragma_foreign_key_list(?) AS fk ORDER BY id, seq", name)
	if err != nil {
		return "", err
	}
	fks := map[int]*[5]string{}
	var ids []int
	for rows.Next() {
		var id, seq int
		var rt, from, to, onu, ond string
		if err := rows.Scan(&id, &seq, &rt, &from, &to, &onu, &ond); err != nil {
			rows.Close()
			return "", err
		}
		f, ok := fks[id]
		if !ok {
			f = &[5]string{rt, "", "", onu, ond}
			fks[id] = f
			ids = append(ids, id)
		}
		f[1] += from + ","
		f[2] += to + ","
	}
	rows.Close()
	var fkLines []string
	for _, id := range ids {
		f := fks[id]
		fkLines = append(fkLines, fmt.Sprintf("fk (%s)->%s(%s) upd=%s del=%s", f[1], f[0], f[2], f[3], f[4]))
	}
	sort.Strings(fkLines)
	lines = append(lines, fkLines...)
	sort.Strings(fkNames)
	for _, n := range fkNames {
		lines = append(lines, "fkname "+n)
	}
	// Indexes created by CREATE INDEX (origin c); constraint indexes are implied by pk/unique above.
	rows, err = db.Query("SELECT il.name, il.\"unique\", il.origin, il.partial, coalesce(m.sql, '') FROM pragma_index_list(?) il LEFT JOIN sqlite_master m ON m.name = il.name AND m.type = 'index' ORDER BY il.name", name)
	if err != nil {
		return "", err
	}
	type ix struct {
		name, origin, sql string
		unique, partial   int
	}
	var ixs []ix
	for rows.Next() {
		var x ix
		if err := rows.Scan(&x.name, &x.unique, &x.origin, &x.partial, &x.sql); err != nil {
			rows.Close()
			return "", err
		}
		ixs = append(ixs, x)
	}
	rows.Close()
	for _, x := range ixs {
		if x.origin == "pk" {
			continue
		}
		prows, err := db.Query("SELECT coalesce(name, '<expr>'), \"desc\" FROM pragma_index_xinfo(?) WHERE key = 1 ORDER BY seqno", x.name)
		if err != nil {
			return "", err
		}
		var parts []string
		for prows.Next() {
			var pn string
			var desc int
			if err := prows.Scan(&pn, &desc); err != nil {
				prows.Close()
				return "", err
			}
			parts = append(parts, fmt.Sprintf("%s/%d", pn, desc))
		}
		prows.Close()
		def, where := "", ""
		if x.sql != "" {
			on := strings.Index(strings.ToUpper(x.sql), " ON ")
			body := balancedAfter(x.sql, on)
			// Parentheses around an expression part may be doubled or missing ((lower(c)) / lower(c)):
			// the parts are compared without them (asc/desc and the column/expression split come
			// from pragma_index_xinfo above).
			def = strings.NewReplacer("(", "", ")", "").Replace(norm(body))
			if k := strings.Index(x.sql, body); k >= 0 {
				rest := x.sql[k+len(body):]
				if w := strings.Index(strings.ToUpper(rest), "WHERE"); w >= 0 {
					where = norm(stripParens(rest[w+5:]))
				}
			}
		}
		iname := x.name
		if x.origin == "u" {
			iname = "<unique-constraint>"
		}
		lines = append(lines, fmt.Sprintf("index %s unique=%d parts=%s def=%s where=%s", iname, x.unique, strings.Join(parts, ","), def, where))
	}
	// Table options.
	var wr, strict int
	if err := db.QueryRow("SELECT wr, strict FROM pragma_table_list WHERE name = ? AND schema = 'main'", name).Scan(&wr, &strict); err != nil {
		return "", err
	}
	autoinc := strings.Contains(strings.ToUpper(createSQL), "AUTOINCREMENT")
	lines = append(lines, fmt.Sprintf("options without_rowid=%d strict=%d autoincrement=%v", wr, strict, autoinc))
	_ = tail
	sort.Strings(lines)
	return strings.Join(lines, "\n"), nil
}

var reTypeTok = regexp.MustCompile(`type=([^ ]*(?: [a-z]+)*?) notnull=`)

// Relax rewrites a table's catalog text to the equivalences Atlas' SQLite differ documents:
// column types are compared by type class (all integer types are one class, all string types
// one class, ...; user-defined types by name), and AUTOINCREMENT on an existing table is not
// compared. Tables created in the current step are compared strictly instead.
func Relax(cat string) string {
	lines := strings.Split(cat, "\n")
	for i, l := range lines {
		if strings.HasPrefix(l, "col ") {
			l = reTypeTok.ReplaceAllStringFunc(l, func(m string) string {
				name := reTypeTok.FindStringSubmatch(m)[1]
				return "type=" + typeClass(name) + " notnull="
			})
		}
		// A check that already exists under another (or no) name is the same check to the differ
		// (checks are matched by name, else by expression).
		if strings.HasPrefix(l, "check ") {
			if k := strings.IndexByte(l, ':'); k >= 0 {
				l = "check " + l[k:]
			}
		}
		// A UNIQUE constraint and a unique index over the same columns are the same thing to Atlas
		// (it cannot create the former on an existing table and restores it as the latter).
		if strings.HasPrefix(l, "index ") && strings.Contains(l, " unique=1 ") && strings.HasSuffix(l, " where=") {
			if k := strings.Index(l, " parts="); k >= 0 {
				rest := l[k:]
				if d := strings.Index(rest, " def="); d >= 0 {
					rest = rest[:d]
				}
				if !strings.Contains(rest, "<expr>") && !strings.Contains(rest, "/1") {
					l = "index <unique> unique=1" + rest
				}
			}
		}
		if strings.HasPrefix(l, "options ") {
			if k := strings.Index(l, " autoincrement="); k >= 0 {
				l = l[:k]
			}
		}
		lines[i] = l
	}
	sort.Strings(lines)
	return strings.Join(lines, "\n")
}

func typeClass(name string) string {
	t, err := sqlite.ParseType(name)
	if err != nil {
		return name
	}
	if u, ok := t.(*sqlite.UserDefinedType); ok {
		return "user:" + strings.ToLower(u.T)
	}
	return strings.TrimPrefix(fmt.Sprintf("%T", t), "*schema.")
}

// DiffCatalogsRelaxed compares strictly the tables named in strict and by Relax the others.
func DiffCatalogsRelaxed(live, ref map[string]string, strict map[string]bool) string {
	l2, r2 := map[string]string{}, map[string]string{}
	for n, c := range live {
		if strict[n] {
			l2[n] = c
		} else {
			l2[n] = Relax(c)
		}
	}
	for n, c := range ref {
		if strict[n] {
			r2[n] = c
		} else {
			r2[n] = Relax(c)
		}
	}
	return DiffCatalogs(l2, r2)
}

// DiffCatalogs returns a human-readable difference, or "".
func DiffCatalogs(live, ref map[string]string) string {
	var out []string
	names := map[string]bool{}
	for n := range live {
		names[n] = true
	}
	for n := range ref {
		names[n] = true
	}
	var ns []string
	for n := range names {
		ns = append(ns, n)
	}
	sort.Strings(ns)
	for _, n := range ns {
		l, lok := live[n]
		r, rok := ref[n]
		switch {
		case !lok:
			out = append(out, "table "+n+" missing in the live database")
		case !rok:
			out = append(out, "table "+n+" exists in the live database only")
		case l != r:
			ll, rl := strings.Split(l, "\n"), strings.Split(r, "\n")
			in := map[string]int{}
			for _, x := range ll {
				in[x]++
			}
			for _, x := range rl {
				in[x]--
			}
			var d []string
			for x, c := range in {
				if c > 0 {
					d = append(d, "live: "+x)
				} else if c < 0 {
					d = append(d, "want: "+x)
				}
			}
			sort.Strings(d)
			out = append(out, "table "+n+": "+strings.Join(d, " | "))
		}
	}
	return strings.Join(out, "\n")
}
