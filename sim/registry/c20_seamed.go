//go:build seamed

package registry

import (
	"encoding/json"
	"os"

	"verif/sim/detsim"
	"verif/sim/simkit"
)

func init() {
	Detop = detsim.ProcDigest
	add(&simkit.Check{
		Property: "C20",
		Parts: []simkit.Part{
			{Name: "detsim-c20", Fn: detsim.C20, Shards: true, Runs: map[string]int{"quick": 2000, "thorough": 100000}},
			{Name: "detsim-c20-procs", Fn: detsim.C20Procs, Shards: true, Runs: map[string]int{"quick": 40, "thorough": 1000}},
			{Name: "detsim-c20-race", Fn: detsim.C20Race, Runs: map[string]int{"quick": 12, "thorough": 300}},
		},
		Rule:           "one run = generated schema pair (A, B = A after 1-4 edits; 2-4 tables with indexes, checks, foreign keys) + a directory of 2-6 files; operations: diff+plan+DefaultFormatter for sqlite/mysql/postgres, MarshalHCL + EvalHCLBytes + MarshalHCL for the three dialects, MemDir checksum; schedules: 2-4 map-iteration orders at every seamed map-range site (the same bytes are required), one permutation of the declaration order of tables / indexes / foreign keys / checks (the multiset of statements must not change), a tape-scheduled interleaving of all operations cut at call boundaries, a repeat in the same process, and (second part) three fresh processes each under its own map order; distinct = distinct trace hash",
		RequiredFaults: []string{"map-order-permuted", "declaration-order-permuted", "operations-interleaved", "fresh-process"},
		RequiredProbes: []string{"site:sql/migrate/dir.go:MemDir.Files#1", "site:sql/internal/sqlx/plan.go:byKeys#1"},
		Real:           []string{"planners, differs, HCL marshalling/evaluation of all three dialects, DefaultFormatter, MemDir/HashFile - built from a scratch copy in which /verif/maprw rewrote the map-range sites to a seeded order"},
		Stub:           []string{"verifmap.Keys (generated into the scratch copy): sorted keys permuted by the simulator's seed"},
		Assumptions: []string{
			"map iteration inside third-party dependencies (hcl, cty, text/template) is outside the seam",
			"goroutine-level interleaving inside CPU-only library code has no yield points the simulator could own; interleaving is at call boundaries. A labelled probe (detsim-c20-race, a few runs in the quick tier, 300 in the thorough one): the operations on real goroutines under the race detector, built from the unmodified code; a finding of that part replays the operation set, not a schedule",
		},
		SimTimeUnit: "operations executed under a schedule",
		Extra: func() map[string]any {
			var sites []map[string]any
			if b, err := os.ReadFile(os.Getenv("VERIF_MAP_SITES")); err == nil {
				json.Unmarshal(b, &sites)
			}
			seamed, var_unseamed := 0, []any{}
			for _, s := range sites {
				if s["seamed"] == true {
					seamed++
				} else {
					var_unseamed = append(var_unseamed, s)
				}
			}
			return map[string]any{"map_range_sites": len(sites), "map_range_sites_seamed": seamed, "map_range_sites_unseamed": var_unseamed}
		},
	})
}
