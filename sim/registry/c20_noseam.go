//go:build !seamed

package registry

import "verif/sim/simkit"

func init() {
	add(&simkit.Check{
		Property: "C20",
		Parts: []simkit.Part{{Name: "detsim-c20", Runs: map[string]int{"quick": 1, "thorough": 1}, Fn: func(*simkit.Run) {
			simkit.Harnessf("C20 needs the binary built against the map-order-seamed scratch copy; run ./check C20")
		}}},
	})
}
