// Package registry lists the checks, one per claimed property.
package registry

import (
	"verif/sim/clisim"
	"verif/sim/detsim"
	"verif/sim/execsim"
	"verif/sim/schemasim"
	"verif/sim/simkit"
)

var checks = map[string]*simkit.Check{}

// RaceChild runs the C20 operation set concurrently (binary built with -race).
var RaceChild = detsim.RaceChild

// Detop runs the C20 operation set of a scenario seed under a map seed (seamed builds only).
var Detop func(seed, mapSeed uint64) string

func add(c *simkit.Check) { checks[c.Property] = c }

// Get returns the check of a property, or nil.
func Get(id string) *simkit.Check { return checks[id] }

// All returns all property ids.
func All() []string {
	var ids []string
	for id := range checks {
		ids = append(ids, id)
	}
	return ids
}

func init() {
	add(&simkit.Check{
		Property: "C09",
		Parts: []simkit.Part{{
			Name: "execsim-c09", Fn: execsim.C09,
			Runs: map[string]int{"quick": 60000, "thorough": 4000000},
		}, {
			Name: "clisim-c09-busy", Fn: clisim.C09Busy, ProcessLevel: true, NeedsCLI: true,
			Runs: map[string]int{"quick": 600, "thorough": 6000},
		}},
		Rule:           "one run = generated directory (1-5 files x 0-5 statements, layout varied) + swarm-selected fault kinds (statement error persistent/one-shot, revision write lost, revision write persisted-but-error, revision read error; <=3 faults, positions biased to first/last statement and to the write right after a statement) + 1-8 ExecuteN/ExecuteTo calls + clean suffix; distinct = distinct trace hash (sha256 of the normalised event log) among runs in which at least one statement was executed or a fault fired",
		RequiredProbes: []string{"resume-after-partial", "directory-with-checkpoint", "resume-of-partial-checkpoint", "lost-write-right-after-statement", "statement-executed-twice-after-lost-write", "statement-executed-but-bookkeeping-write-failed", "statement-executed-twice-after-failed-bookkeeping"},
		RequiredFaults: []string{"stmt-persistent", "stmt-once", "rev-write-lost", "rev-write-acklost", "rev-read", "write-lock-held-at/exec:before-init-write", "write-lock-held-at/exec:before-stmt", "write-lock-held-at/exec:after-stmt", "write-lock-held-at/exec:before-final-write"},
		Real:           []string{"migrate.Executor (Pending, Execute, ExecuteN, ExecuteTo, exec)", "migrate.MemDir", "migrate.Validate/HashFile", "statement scanner (migrate.Stmts)"},
		Stub:           []string{"database (SimDriver: records ExecContext, fails on plan)", "revision store (SimRevs: in-memory copies, write lost / ack lost / read error)", "part clisim-c09-busy stubs nothing: the real CLI (--tx-mode none) is parked at a hook point (VERIF_PAUSE_AT) while an independent connection takes SQLite's write lock, so that its next bookkeeping write or statement really fails with 'database is locked'"},
		Assumptions: []string{
			"the database is non-transactional at this seam (tx-mode none semantics); transactional modes are C10/C13",
			"a revision write either persists the whole revision or nothing (no torn revision rows)",
			"directory is not edited during the run (edits are C11/C12)",
		},
		SimTimeUnit: "executor calls (no clock on this path)",
	})
	c10probes := []string{"directive-overrides-global-mode", "crash-state-compared", "crash-between-statement-and-bookkeeping", "statement-executed-twice-after-crash", "lease-left-after-crash", "lease-held-by-the-clock", "lease-expired-by-the-clock/just-past", "lease-expired-by-the-clock/an-hour-past", "lease-expired-by-stamp"}
	for _, m := range clisim.TxModes {
		for _, p := range clisim.CrashPoints {
			c10probes = append(c10probes, "cell:"+m+":"+p)
		}
	}
	add(&simkit.Check{
		Property: "C10",
		Parts: []simkit.Part{{
			Name: "clisim-c10", Fn: clisim.C10, ProcessLevel: true, NeedsCLI: true,
			Runs: map[string]int{"quick": 2880, "thorough": 43200},
		}},
		Rule:           "one run = generated directory (1-4 files x 1-4 self-journalling statements, idempotent DDL mixed in) + tx-mode and first crash point stratified over the run index (36 cells) + tape-drawn occurrence, count argument, optional earlier clean apply, optional second crash at a drawn point, restart with the lease still held or expired; distinct = distinct trace hash among runs in which a crash really fired",
		RequiredProbes: c10probes,
		RequiredFaults: []string{"crash", "restart-with-lease-held", "lease-expired"},
		Real:           []string{"the whole CLI binary built from /repo with -tags verif (cmdapi, Executor, ent revision store, sqlclient, SQLite driver)", "SQLite engine and files (journal recovery after SIGKILL)", "advisory lock lease file"},
		Stub:           []string{"none (hooks are no-op call sites; the observer is an independent mattn/go-sqlite3 connection)"},
		Assumptions: []string{
			"crash = SIGKILL of the process: user-space state and deferred code are lost, bytes handed to the kernel survive (no power-loss / lost-fsync model)",
			"lease time is simulated: the lease is stamped with and checked against the simulated clock (clock seam VERIF_NOW), which stays inside the lease, jumps one second or an hour past its expiry; or an adversary rewrites the stamp (far future / distant past)",
			"migration statements are idempotent DDL (CREATE TABLE IF NOT EXISTS) or self-journalling INSERTs so that a repeated execution is observable, not masked",
		},
		SimTimeUnit: "CLI invocations and lease epochs (no timers on this path except the lease, which is simulated)",
	})
	add(&simkit.Check{
		Property: "C13",
		Parts: []simkit.Part{
			{Name: "clisim-c13-apply", Fn: clisim.C13Apply, ProcessLevel: true, NeedsCLI: true, Runs: map[string]int{"quick": 1800, "thorough": 30000}},
			{Name: "clisim-c13-schema", Fn: clisim.C13Schema, ProcessLevel: true, NeedsCLI: true, Runs: map[string]int{"quick": 600, "thorough": 8000}},
			{Name: "clisim-c13-dryrun", Fn: clisim.C13Dry, ProcessLevel: true, NeedsCLI: true, Runs: map[string]int{"quick": 800, "thorough": 10000}},
			{Name: "clisim-c13-commit", Fn: clisim.C13Commit, ProcessLevel: true, NeedsCLI: true, Runs: map[string]int{"quick": 400, "thorough": 6000}},
			{Name: "clisim-c13-baseline", Fn: clisim.C13Baseline, ProcessLevel: true, NeedsCLI: true, Runs: map[string]int{"quick": 300, "thorough": 4000}},
		},
		Rule:           "apply part: generated directory (1-4 files x 1-4 statements, real DDL mixed in) with at most one statement that fails at execution time at a drawn (file, statement), global --tx-mode stratified over the run index x per-file atlas:txmode directives x optional count argument x optional earlier clean apply; then fix + re-hash + re-run; a third of the runs connect with _fk=1 and may fail by a foreign-key violation (at once outside a transaction, at commit inside one). commit part: the CLI is parked right before a COMMIT (file mode: the n-th file's; all mode: the final one) while an independent connection keeps a read transaction open, so that the COMMIT itself fails with 'database is locked'; then a clean re-run. baseline part: a database that holds the files up to a drawn version without any history, `migrate apply --baseline <version>` in file or all mode with one failing statement in a later file, then the fix and the same command again. schema part: initial schema applied by the CLI, rows with duplicates/NULLs/negatives inserted, desired schema = one drawn change per table of which at most one cannot succeed on the data (UNIQUE on duplicates, NOT NULL on NULLs, violated CHECK), --dry-run then default mode then --tx-mode none as reach probe. dry-run part: migrate apply --dry-run on fresh / initialised / dirty databases x count x tx-mode x --baseline / --allow-dirty. distinct = distinct trace hash among runs that executed at least one apply",
		RequiredProbes: []string{"second-failure-after-fix", "partial-prefix-recorded", "rolled-back-after-progress", "plan-failed-after-progress", "dry-run:fresh:baseline", "dry-run:dirty:baseline", "dry-run:initialised:plain", "dry-run:dirty:allow-dirty"},
		RequiredFaults: []string{"statement-failure-or-directive-conflict", "dry-run", "plan-fails-on-data/unique-on-duplicates", "plan-fails-on-data/not-null-on-nulls", "plan-fails-on-data/check-violated-by-rows", "commit-fails-database-locked/file", "commit-fails-database-locked/all", "statement-failure-on-baselined-first-run/file", "statement-failure-on-baselined-first-run/all"},
		Real:           []string{"the whole CLI binary (cmdapi tx multiplexer, dry-run wrappers, Executor, ent revision store, SQLite driver)", "SQLite engine and files"},
		Stub:           []string{"none (independent mattn/go-sqlite3 observer)"},
		Assumptions: []string{
			"'no atlas_schema_revisions table' and 'an empty atlas_schema_revisions table' are the same revision history",
			"label columns executed_at, execution_time, operator_version are not compared",
		},
		SimTimeUnit: "CLI invocations",
	})
	add(&simkit.Check{
		Property: "C12",
		Parts: []simkit.Part{
			{Name: "execsim-c12", Fn: execsim.C12, Runs: map[string]int{"quick": 40000, "thorough": 2000000}},
			{Name: "clisim-c12", Fn: clisim.C12CLI, ProcessLevel: true, NeedsCLI: true, Runs: map[string]int{"quick": 1000, "thorough": 12000}},
		},
		Rule:           "one run = victim file of 1-5 statements (optional complete predecessor / pending successor), partially applied to progress k by an injected persistent statement failure, then one edit (change/insert/delete/swap/truncate/append at a drawn index, truncation may go below k), re-hash, apply, apply again; distinct = distinct trace hash",
		RequiredProbes: []string{"second-failure-in-the-same-file", "partial-with-applied-statements", "edit-touches-applied-part", "fewer-statements-than-applied", "edit-of-unapplied-tail", "tail-edit-changes-length"},
		RequiredFaults: []string{"stmt-persistent", "stmt-failure"},
		Real:           []string{"clisim part: the whole CLI binary + SQLite (migrate apply --tx-mode none, migrate hash)", "migrate.Executor (Pending, Execute: partial-hash comparison, resume)", "migrate.MemDir, HashFile, statement scanner"},
		Stub:           []string{"database (SimDriver)", "revision store (SimRevs)"},
		Assumptions:    []string{"history 'untouched' is compared without the label fields ExecutedAt, ExecutionTime, OperatorVersion"},
		SimTimeUnit:    "executor calls",
	})
	add(&simkit.Check{
		Property: "C11",
		Parts: []simkit.Part{
			{Name: "execsim-c11", Fn: execsim.C11, Runs: map[string]int{"quick": 40000, "thorough": 3000000}},
			{Name: "clisim-c11", Fn: clisim.C11CLI, ProcessLevel: true, NeedsCLI: true, Runs: map[string]int{"quick": 1500, "thorough": 15000}},
		},
		Rule:           "one run = 2-8 operator actions (add newer file, add file with an older version, add checkpoint, make the database dirty/clean, fix, apply n with drawn exec-order / baseline / allow-dirty and optionally an injected failing statement that leaves a partial revision); after every apply the executed statements and the error class are compared with the documented decision of the reference model (model.Pending); distinct = distinct trace hash among runs that executed a statement",
		RequiredProbes: []string{"out-of-order-file-added", "checkpoint-added", "last-partial-history", "first-run-with-checkpoint", "decision:run", "decision:no-pending", "decision:not-clean", "decision:baseline-not-found", "decision:non-linear"},
		RequiredFaults: []string{"stmt-persistent"},
		Real:           []string{"migrate.Executor (Pending, ExecuteN, Execute)", "migrate.MemDir incl. checkpoint handling (FilesFromLastCheckpoint, SkipCheckpointFiles)", "HashFile/Validate, statement scanner"},
		Stub:           []string{"database (SimDriver, CheckClean from a flag)", "revision store (SimRevs)"},
		Assumptions:    []string{"versions are fixed-width (the documented timestamp form): Atlas orders files by name and compares versions as strings", "reference model = DESIGN.md Appendix A"},
		SimTimeUnit:    "operator actions",
	})
	add(&simkit.Check{
		Property: "C06",
		Parts: []simkit.Part{
			{Name: "execsim-c06", Fn: execsim.C06, Runs: map[string]int{"quick": 20000, "thorough": 1500000}},
			{Name: "clisim-c06", Fn: clisim.C06CLI, ProcessLevel: true, NeedsCLI: true, Runs: map[string]int{"quick": 600, "thorough": 8000}},
		},
		Rule:           "one run = 3-12 steps on a real LocalDir: writers (Planner.WritePlan, WriteCheckpoint, WriteSumFile, MemDir.CopyFiles) with an optional disk fault on one of their writes (nothing / prefix / everything written, error returned) interleaved with adversary edits of the storage (byte flip/insert/delete, add first/middle/last, remove, rename, swap contents, gain/lose the sum-ignore line, body edit of a sum-ignored file, non-.sql file, atlas.sum character/line edits, removal, truncation); after every step Validate is compared with an independent reference implementation of the sum format and with the 'valid before + tamper => invalid after' rule; distinct = distinct trace hash among runs with at least one fault or tamper",
		RequiredProbes: []string{"ref-compared", "tamper-on-valid-directory", "sum-file-edited", "torn-sum-file", "edit-body-of-sum-ignored-file", "sum-ignore-directive-present", "sum-ignored-file-added-removed-renamed", "import-unpadded-versions", "import-flyway-repeatable"},
		RequiredFaults: []string{"dir-write-fails/file", "dir-write-torn/file", "dir-write-error-after-durable/file", "dir-write-fails/sum", "dir-write-torn/sum", "dir-write-error-after-durable/sum", "tamper/flip-byte", "tamper/add-file(first)", "tamper/add-file(middle)", "tamper/add-file(last)", "tamper/remove-file", "tamper/rename-file", "tamper/swap-contents", "tamper/sum-replace-char", "tamper/sum-delete-line", "tamper/sum-duplicate-line", "tamper/sum-swap-lines", "tamper/remove-sum-file", "writer/migrate-new", "writer/migrate-hash", "writer/migrate-diff", "writer/import-goose", "writer/import-dbmate", "writer/import-golang-migrate", "writer/import-flyway", "writer/import-liquibase", "consumer/apply"},
		Real:           []string{"migrate.Validate, HashFile (NewHashFile, Sum, MarshalText, UnmarshalText), readHashFile", "migrate.LocalDir on real files, MemDir.CopyFiles", "Planner.WritePlan / WriteCheckpoint / writeSum, DefaultFormatter", "clisim part: the CLI binary (migrate new / hash / diff / import / validate / apply) on real files and a real SQLite dev database"},
		Stub:           []string{"FaultDir wrapper at the Dir seam (failed / torn / error-after-durable writes)", "no driver (writers that need none)"},
		Assumptions:    []string{"non-.sql files and the body of a file carrying the documented atlas:sum ignore directive are outside the integrity domain", "whitespace-only edits of atlas.sum are not generated", "SHA-256 collisions do not occur"},
		SimTimeUnit:    "writer / adversary steps",
	})
	var c14probes []string
	for _, c := range clisim.DevCommands {
		for _, st := range clisim.DevStates {
			c14probes = append(c14probes, "cell:"+c+":"+st)
		}
	}
	c14probes = append(c14probes, "leftovers-after-crash", "directory-with-trigger-and-view")
	add(&simkit.Check{
		Property: "C14",
		Parts: []simkit.Part{
			{Name: "clisim-c14", Fn: clisim.C14, ProcessLevel: true, NeedsCLI: true, Runs: map[string]int{"quick": 2880, "thorough": 28800}},
		},
		Rule:           "one run = (dev-url command x initial dev state) stratified over the run index (8 commands x 6 states: no file, empty file, user tables with rows, leftovers of a replay killed before restore, view only, virtual tables only) + generated directory / SQL schema with real DDL + drawn fault (none, a failing statement at a drawn position, SIGKILL at a drawn replay point) + the follow-up command after a crash; distinct = distinct trace hash",
		RequiredProbes: c14probes,
		RequiredFaults: []string{"crash-in-earlier-replay", "crash-in-replay", "statement-failure-in-replay", "non-empty-dev"},
		Real:           []string{"the whole CLI binary (migrate diff/validate/lint, schema apply/diff/inspect with --dev-url)", "SQLite driver Snapshot/restore, Executor.Replay, DevDriver normalisation, lint DevLoader", "SQLite engine and files"},
		Stub:           []string{"none (independent observer)"},
		Assumptions:    []string{"'untouched' is compared on the logical content (sqlite_master text + every row); byte identity of the file is reported as a probe", "a crash inside migrate lint is not simulated (its replay loop has no instrumented point); statement failures inside lint are"},
		SimTimeUnit:    "CLI invocations",
	})
	walkRule := "one run = random walk of 3-8 desired SQLite schemas (each obtained from the previous one by 1-3 elementary edits kept only if SQLite itself accepts the result; occasionally a fresh schema) over <=4 tables drawn from the feature catalogue (sized/user types, NULL/NOT NULL, literal and expression defaults, single/composite/AUTOINCREMENT primary keys, unique/multi-column/DESC/partial/expression indexes, named and unnamed CHECKs, self/cross foreign keys with every action, WITHOUT ROWID, STRICT, VIRTUAL/STORED generated columns), rows inserted between steps, each step = inspect -> diff (normalized) -> plan -> ApplyChanges in a transaction (file) or directly (none), with the k-th statement failing or the connection abandoned after the k-th statement in fault-injecting runs; distinct = distinct trace hash among runs that applied at least one plan"
	walkReal := []string{"sqlite driver: inspect, diff, plan, ApplyChanges, OpenTx/commit checks", "sqlx differ/planner helpers", "sqlite.MarshalHCL / EvalHCLBytes, sqltool formatters (where the property uses them)", "real SQLite engine (mattn/go-sqlite3) on a per-run file"}
	walkStub := []string{"faultEQ: wrapper of the connection the plan is executed on (k-th statement fails / connection abandoned after k)", "row generator and reference DDL generator are the simulator's own"}
	walkAssume := []string{"SQLite only (no MySQL/PostgreSQL engine offline)", "desired schemas stay inside the feature set Atlas documents for SQLite; every desired schema is first created on a scratch engine by the simulator's own DDL", "a plan that fails only because of the data (shown by succeeding once all rows are removed) is expected to fail and roll back"}
	add(&simkit.Check{
		Property:       "C01",
		Parts:          []simkit.Part{{Name: "schemasim-c01", Fn: schemasim.Walk("C01"), NeedsCLI: true, Runs: map[string]int{"quick": 3000, "thorough": 120000}}},
		Rule:           walkRule,
		RequiredProbes: []string{"step-applied-through-cli", "legacy-start", "successful-apply", "rebuild-path", "alter-path", "converged-check/alter", "converged-check/rebuild", "failed-apply-rolled-back", "failed-apply-left-intermediate-state"},
		RequiredFaults: []string{"statement-error", "connection-abandoned"},
		Real:           walkReal, Stub: walkStub, Assumptions: walkAssume,
		SimTimeUnit: "reconciliation steps",
	})
	add(&simkit.Check{
		Property:       "C05",
		Parts:          []simkit.Part{{Name: "schemasim-c05", Fn: schemasim.Walk("C05"), Runs: map[string]int{"quick": 6000, "thorough": 120000}}},
		Rule:           walkRule + "; oracle: row count and the multiset of rows projected on the columns that keep name and declared type, per table, across every successful apply; whole-database identity across every failed apply in a transaction",
		RequiredProbes: []string{"successful-apply", "populated-table-checked/alter", "populated-table-checked/rebuild", "failed-apply-rolled-back", "row-inserted", "child-row-references-parent-row", "generated-column-became-regular"},
		RequiredFaults: []string{"statement-error", "connection-abandoned"},
		Real:           walkReal, Stub: walkStub, Assumptions: append([]string{"a nullable column that becomes NOT NULL cannot keep its NULLs: such a column is compared only if it held none", "rows are matched as multisets (every generated cell value is unique), not by rowid"}, walkAssume...),
		SimTimeUnit: "reconciliation steps",
	})
	add(&simkit.Check{
		Property:       "C03",
		Parts:          []simkit.Part{{Name: "schemasim-c03", Fn: schemasim.Walk("C03"), NeedsCLI: true, Runs: map[string]int{"quick": 2500, "thorough": 100000}}},
		Rule:           walkRule + "; oracle on every state a successful apply reached: HCL export evaluates back to the inspected schema (both directions), two inspections give identical HCL, the SQL export (plan empty -> inspected, dump mode) executes on a fresh engine and recreates the same schema and the same observer catalog",
		RequiredProbes: []string{"hcl-export-recreated", "step-applied-through-cli", "cli-export-check", "legacy-start", "successful-apply", "export-check/alter", "export-check/rebuild", "failed-apply-left-intermediate-state"},
		RequiredFaults: []string{"statement-error", "connection-abandoned"},
		Real:           walkReal, Stub: walkStub, Assumptions: walkAssume,
		SimTimeUnit: "reconciliation steps",
	})
	add(&simkit.Check{
		Property:       "C17",
		Parts:          []simkit.Part{{Name: "schemasim-c17", Fn: schemasim.Walk("C17"), Runs: map[string]int{"quick": 6000, "thorough": 120000}}},
		Rule:           walkRule + "; oracle on every successfully applied plan: flagged reversible only if every change has reverse statements; for reversible plans the down sections of the golang-migrate, goose, dbmate, flyway formatters and the liquibase rollback lines are exactly the reverse statements in reverse order, and executing them on the real database restores the starting schema and catalog",
		RequiredProbes: []string{"successful-apply", "reversible-plan", "irreversible-plan", "down-executed"},
		RequiredFaults: []string{"statement-error"},
		Real:           walkReal, Stub: walkStub, Assumptions: append([]string{"SQLite part only: MySQL/PostgreSQL reversibility is not claimed (no engine offline)"}, walkAssume...),
		SimTimeUnit: "reconciliation steps",
	})
	add(&simkit.Check{
		Property:       "C18",
		Parts:          []simkit.Part{{Name: "clisim-c18", Fn: clisim.C18, ProcessLevel: true, NeedsCLI: true, Runs: map[string]int{"quick": 3000, "thorough": 15000}}},
		Rule:           "one run = a directory evolved file by file (2-6 files): each file is either derived by `migrate diff` from one schema edit (so SQLite's rebuild procedure appears when it would for a user) or hand-written from 1-3 operations (CREATE TABLE, ADD COLUMN, CREATE INDEX, DROP TABLE, ALTER TABLE DROP COLUMN of a stored or virtual column, rebuild that omits a column, additive rebuild, create-and-drop of a temporary table or column, drop of an existing column / table followed by an add / create of the same name); then `migrate lint --latest N` for a drawn N; the reference model tracks which tables and non-virtual columns existed before each file; distinct = distinct trace hash",
		RequiredProbes: []string{"file-derived-by-migrate-diff", "diff-generated-rebuild", "temporary-table-created-and-dropped", "hand-written-rebuild-omitting-column", "additive-rebuild", "virtual-column-dropped", "additive-file-in-window", "column-dropped-and-re-added", "table-dropped-and-re-created", "temporary-column-added-and-dropped", "rebuild-without-pragma-frame", "diff-with-two-edits"},
		RequiredFaults: []string{"destructive/DS102", "destructive/DS103"},
		Real:           []string{"the whole CLI binary (migrate lint with DevLoader, sqlcheck destructive analyzer, sqlitecheck, migrate diff)", "SQLite engine (dev database file)"},
		Stub:           []string{"none"},
		Assumptions:    []string{"no fault or schedule dimension in this property: the operation-sequence / reference-model half of the technique only (cleanliness of the dev database under failing statements during lint is C14)", "for SQLite's rebuild procedure any statement of the CREATE new_t / INSERT / DROP t / RENAME group is accepted as the causing statement"},
		SimTimeUnit:    "migration files written",
	})
}
