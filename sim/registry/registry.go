// Package registry lists the checks, one per claimed property.
package registry

import (
	"verif/sim/execsim"
	"verif/sim/simkit"
)

var checks = map[string]*simkit.Check{}

func add(c *simkit.Check) { checks[c.Property] = c }

// Get returns the check of a property, or nil.
func Get(id string) *simkit.Check { return checks[id] }

// All returns all property ids.
func All() []string {
	var ids []string
	for id := range checks {
		ids = append(ids, id)
	}
	return ids
}

func init() {
	add(&simkit.Check{
		Property: "C09",
		Parts: []simkit.Part{{
			Name: "execsim-c09", Fn: execsim.C09,
			Runs: map[string]int{"quick": 60000, "thorough": 4000000},
		}},
		Rule:           "one run = generated directory (1-5 files x 0-5 statements, layout varied) + swarm-selected fault kinds (statement error persistent/one-shot, revision write lost, revision write persisted-but-error, revision read error; <=3 faults, positions biased to first/last statement and to the write right after a statement) + 1-8 ExecuteN/ExecuteTo calls + clean suffix; distinct = distinct trace hash (sha256 of the normalised event log) among runs in which at least one statement was executed or a fault fired",
		RequiredProbes: []string{"resume-after-partial", "lost-write-right-after-statement", "statement-executed-twice-after-lost-write"},
		RequiredFaults: []string{"stmt-persistent", "stmt-once", "rev-write-lost", "rev-write-acklost", "rev-read"},
		Real:           []string{"migrate.Executor (Pending, Execute, ExecuteN, ExecuteTo, exec)", "migrate.MemDir", "migrate.Validate/HashFile", "statement scanner (migrate.Stmts)"},
		Stub:           []string{"database (SimDriver: records ExecContext, fails on plan)", "revision store (SimRevs: in-memory copies, write lost / ack lost / read error)"},
		Assumptions: []string{
			"the database is non-transactional at this seam (tx-mode none semantics); transactional modes are C10/C13",
			"a revision write either persists the whole revision or nothing (no torn revision rows)",
			"directory is not edited during the run (edits are C11/C12)",
		},
		SimTimeUnit: "executor calls (no clock on this path)",
	})
}
