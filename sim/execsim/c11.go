package execsim

import (
	"context"
	"errors"
	"fmt"
	"sort"
	"strings"

	"ariga.io/atlas/sql/migrate"

	"verif/sim/model"
	"verif/sim/simkit"
)

// Orders are the execution orders of migrate apply.
var Orders = []string{"linear", "linear-skip", "non-linear"}

func orderOpt(o string) migrate.ExecOrder {
	switch o {
	case "linear-skip":
		return migrate.ExecOrderLinearSkip
	case "non-linear":
		return migrate.ExecOrderNonLinear
	}
	return migrate.ExecOrderLinear
}

type c11File struct {
	GenFile
	Idx        int
	Checkpoint bool
}

// C11 — pending-file computation follows the documented semantics for every history (API half).
// Histories are reached by operator actions, never fabricated.
func C11(r *simkit.Run) {
	const prop = "C11"
	t := r.T
	ctx := context.Background()
	dir := &migrate.MemDir{}
	drv := &SimDriver{FailAlways: map[string]bool{}, FailOnce: map[string]bool{}}
	revs := NewSimRevs()
	var files []*c11File
	used := map[int]bool{}
	reseal := func() {
		sum, err := dir.Checksum()
		if err != nil {
			simkit.Harnessf("checksum: %v", err)
		}
		if err := migrate.WriteSumFile(dir, sum); err != nil {
			simkit.Harnessf("sum: %v", err)
		}
	}
	addFile := func(idx int, ck bool) {
		used[idx] = true
		tag := fmt.Sprintf("f%d", idx)
		g := genFile(t, idx, tag, t.Range("stmts", 1, 3))
		f := &c11File{GenFile: g, Idx: idx, Checkpoint: ck}
		if ck {
			if err := dir.WriteCheckpoint(g.Name, "", []byte(g.Body)); err != nil {
				simkit.Harnessf("checkpoint: %v", err)
			}
		} else if err := dir.WriteFile(g.Name, []byte(g.Body)); err != nil {
			simkit.Harnessf("write: %v", err)
		}
		files = append(files, f)
		sort.Slice(files, func(i, j int) bool { return files[i].Name < files[j].Name })
		reseal()
	}
	maxIdx := func() int {
		m := 0
		for _, f := range files {
			if f.Idx > m {
				m = f.Idx
			}
		}
		return m
	}
	byVersion := func(v string) *c11File {
		for _, f := range files {
			if f.Version == v {
				return f
			}
		}
		return nil
	}
	modelFiles := func() []model.File {
		out := make([]model.File, len(files))
		for i, f := range files {
			out[i] = model.File{Version: f.Version, Name: f.Name, Checkpoint: f.Checkpoint}
		}
		return out
	}
	modelRevs := func() []model.Rev {
		var out []model.Rev
		for _, rv := range revs.Snapshot() {
			out = append(out, model.Rev{Version: rv.Version, Applied: rv.Applied, Total: rv.Total})
		}
		return out
	}
	names := func(fs []model.File) string {
		var out []string
		for _, f := range fs {
			s := fmt.Sprintf("f%d", byVersion(f.Version).Idx)
			if f.Checkpoint {
				s += "*"
			}
			out = append(out, s)
		}
		return strings.Join(out, " ")
	}
	dirDesc := func() string {
		var out []string
		for _, f := range files {
			s := fmt.Sprintf("f%d(%d)", f.Idx, len(f.Stmts))
			if f.Checkpoint {
				s = fmt.Sprintf("f%d*(%d)", f.Idx, len(f.Stmts))
			}
			out = append(out, s)
		}
		return strings.Join(out, " ")
	}
	classify := func(d model.Decision, o model.Options) string {
		var fs []string
		if len(modelRevs()) == 0 {
			fs = append(fs, "first-run")
			if !o.Clean {
				fs = append(fs, "dirty")
			}
			if o.Baseline != "" {
				fs = append(fs, "baseline")
			}
		} else {
			rs := modelRevs()
			if rs[len(rs)-1].Partial() {
				fs = append(fs, "last-partial")
			}
			for _, x := range rs[:len(rs)-1] {
				if x.Partial() {
					fs = append(fs, "non-last-partial")
					break
				}
			}
		}
		for _, f := range files {
			if f.Checkpoint {
				fs = append(fs, "checkpoint")
				break
			}
		}
		fs = append(fs, o.Order)
		return strings.Join(fs, ",")
	}
	// Initial directory.
	n0 := t.Range("initial-files", 1, 3)
	for i := 0; i < n0; i++ {
		addFile(maxIdx()+1+t.Draw("gap", 2), false)
	}
	r.Logf("dir=%s", dirDesc())
	r.Sample("initial dir: %s", dirDesc())
	actions := t.Range("actions", 2, 8)
	for a := 0; a < actions && !r.Failed(); a++ {
		r.Step()
		switch t.Weighted("action", 5, 2, 2, 1, 1, 2, 1) {
		case 1: // add a newer file
			addFile(maxIdx()+1+t.Draw("gap", 2), false)
			r.Logf("add newer file -> dir=%s", dirDesc())
			r.Sample("add newer file -> dir: %s", dirDesc())
			continue
		case 2: // add a file out of order
			var free []int
			for i := 1; i < maxIdx(); i++ {
				if !used[i] {
					free = append(free, i)
				}
			}
			if len(free) == 0 {
				addFile(maxIdx()+2, false)
			} else {
				addFile(free[t.Draw("ooo-slot", len(free))], false)
				r.Probe("out-of-order-file-added")
			}
			r.Logf("add out-of-order file -> dir=%s", dirDesc())
			r.Sample("add file with an older version -> dir: %s", dirDesc())
			continue
		case 3: // add a checkpoint (newest version)
			addFile(maxIdx()+1, true)
			r.Probe("checkpoint-added")
			r.Logf("add checkpoint -> dir=%s", dirDesc())
			r.Sample("add checkpoint -> dir: %s", dirDesc())
			continue
		case 4: // the database gets / loses foreign objects before the first run
			drv.Dirty = !drv.Dirty
			r.Logf("dirty=%v", drv.Dirty)
			r.Sample("database dirty=%v", drv.Dirty)
			continue
		case 6: // squash: the files the newest checkpoint replaces are removed from the directory
			ck := -1
			for i, f := range files {
				if f.Checkpoint {
					ck = i
				}
			}
			if ck <= 0 {
				continue
			}
			nd := &migrate.MemDir{}
			for _, f := range files[ck:] {
				var err error
				if f.Checkpoint {
					err = nd.WriteCheckpoint(f.Name, "", []byte(f.Body))
				} else {
					err = nd.WriteFile(f.Name, []byte(f.Body))
				}
				if err != nil {
					simkit.Harnessf("squash: %v", err)
				}
			}
			dir = nd
			files = append([]*c11File(nil), files[ck:]...)
			reseal()
			r.Probe("files-squashed-into-checkpoint")
			r.Logf("squash -> dir=%s", dirDesc())
			r.Sample("the files older than the newest checkpoint are deleted (squash) -> dir: %s", dirDesc())
			continue
		case 5: // operator fixes the failing statement's cause
			drv.FailAlways = map[string]bool{}
			r.Logf("fix")
			r.Sample("operator fixes the failing statement's cause")
			continue
		}
		// apply n with options.
		o := model.Options{Order: Orders[t.Draw("order", 3)], Clean: !drv.Dirty}
		switch t.Weighted("first-run-flag", 4, 1, 1) {
		case 1:
			if len(files) > 0 {
				o.Baseline = files[t.Draw("baseline-file", len(files))].Version
				if t.Chance("baseline-missing", 1, 6) {
					o.Baseline = Version(99)
				}
			}
		case 2:
			o.AllowDirty = true
		}
		n := t.Weighted("n", 2, 3, 2)
		opts := []migrate.ExecutorOption{migrate.WithExecOrder(orderOpt(o.Order)), migrate.WithAllowDirty(o.AllowDirty)}
		if o.Baseline != "" {
			opts = append(opts, migrate.WithBaselineVersion(o.Baseline))
		}
		ex, err := migrate.NewExecutor(drv, dir, revs, opts...)
		if err != nil {
			simkit.Harnessf("NewExecutor: %v", err)
		}
		// Sometimes the run is "apply up to version v" (ExecuteTo): the files up to v count, also
		// when a checkpoint newer than v exists; afterwards the same executor is asked what is
		// pending and must see the whole directory again.
		toVersion := ""
		if len(files) > 0 && t.Chance("apply-to-version", 1, 6) {
			toVersion = files[t.Draw("to-version", len(files))].Version
			n = 0
		}
		dec := model.Pending(modelFiles(), modelRevs(), o)
		if toVersion != "" {
			mf := modelFiles()
			idx := -1
			for i, f := range mf {
				if f.Version == toVersion {
					idx = i
				}
			}
			ckAfter := false
			for _, f := range mf[idx+1:] {
				ckAfter = ckAfter || f.Checkpoint
			}
			if ckAfter {
				dec = model.Pending(mf[:idx+1], modelRevs(), o)
				r.Probe("apply-to-version-before-a-checkpoint")
			} else if dec.Err == model.OK {
				k := -1
				for i, f := range dec.Pending {
					if f.Version == toVersion {
						k = i
					}
				}
				if k < 0 {
					dec = model.Decision{Err: "version-not-pending"}
				} else {
					dec.Pending = dec.Pending[:k+1]
				}
			}
		}
		class := classify(dec, o)
		// Maybe a statement of the files about to run fails (creates partial revisions).
		want := dec.Pending
		if n > 0 && n < len(want) {
			want = want[:n]
		}
		var wantStmts []string
		for _, f := range want {
			cf := byVersion(f.Version)
			st := cf.Stmts
			// A file that has a (partial) revision resumes after its recorded statements.
			if rv, ok := revs.Store[f.Version]; ok {
				st = st[min(rv.Applied, len(st)):]
			}
			wantStmts = append(wantStmts, st...)
		}
		failAt := -1
		if dec.Err == model.OK && len(wantStmts) > 0 && len(drv.FailAlways) == 0 && t.Chance("inject-statement-failure", 1, 3) {
			failAt = t.Draw("fail-stmt", len(wantStmts))
			drv.FailAlways[wantStmts[failAt]] = true
			r.Configured("stmt-persistent")
		}
		for i, s := range wantStmts {
			if drv.FailAlways[s] && (failAt < 0 || i < failAt) {
				failAt = i
			}
		}
		before := len(drv.Effects)
		revBefore := storeDigest(revs)
		if toVersion != "" {
			err = ex.ExecuteTo(ctx, toVersion)
			r.Fired("apply-to-version")
		} else {
			err = ex.ExecuteN(ctx, n)
		}
		acts := drv.Effects[before:]
		var ids []string
		for _, e := range acts {
			id := StmtID(e.Stmt)
			if !e.OK {
				id += "!"
			}
			ids = append(ids, id)
		}
		r.Logf("apply n=%d order=%s baseline=%s allowDirty=%v dirty=%v model=%s[%s] -> %s exec=%v store=[%s]", n, o.Order, strings.TrimLeft(o.Baseline, "0"), o.AllowDirty, drv.Dirty, dec.Err, names(dec.Pending), errClass(err), ids, storeDigest(revs))
		r.Sample("apply n=%d order=%s baseline=%s allow-dirty=%v (db dirty=%v): documented decision %q pending [%s] -> %s exec=%v history [%s]", n, o.Order, strings.TrimLeft(o.Baseline, "0"), o.AllowDirty, drv.Dirty, dec.Err, names(dec.Pending), errClass(err), ids, storeDigest(revs))
		if dec.Err == "" {
			r.Probe("decision:run")
		} else {
			r.Probe("decision:" + dec.Err)
		}
		if strings.Contains(class, "non-last-partial") {
			r.Probe("non-last-partial-history")
		}
		if strings.Contains(class, "last-partial") {
			r.Probe("last-partial-history")
		}
		if strings.Contains(class, "first-run") && strings.Contains(class, "checkpoint") {
			r.Probe("first-run-with-checkpoint")
		}
		if len(acts) > 0 {
			r.Nontrivial()
		}
		sig := func(what string) string { return what + "/" + class }
		switch dec.Err {
		case model.OK:
			got := make([]string, len(acts))
			for i, e := range acts {
				got[i] = e.Stmt
			}
			exp := wantStmts
			if failAt >= 0 {
				exp = wantStmts[:failAt+1]
				r.Fired("stmt-persistent")
			}
			if strings.Join(got, "\x00") != strings.Join(exp, "\x00") {
				r.Fail(prop, "pending-set", sig("wrong-files-run"), "documented pending files [%s] (apply n=%d => statements %v) but the executor ran %v (err=%v); dir %s history before [%s]", names(dec.Pending), n, idsOf(exp), ids, err, dirDesc(), revBefore)
				break
			}
			if failAt < 0 && err != nil {
				r.Fail(prop, "pending-set", sig("unexpected-error"), "documented decision is to run [%s] but the executor returned %v", names(dec.Pending), err)
				break
			}
			if dec.WriteBaseline != "" {
				if rv, ok := revs.Store[dec.WriteBaseline]; !ok || rv.Type != migrate.RevisionTypeBaseline {
					r.Fail(prop, "baseline", sig("baseline-not-recorded"), "baseline %s was not recorded", dec.WriteBaseline)
				}
			}
		default:
			if len(acts) > 0 {
				r.Fail(prop, "pending-set", sig("ran-despite-"+dec.Err), "documented decision is %s but the executor ran %v", dec.Err, ids)
				break
			}
			wantClass := map[string]string{model.NoPending: "no-pending", model.NotClean: "not-clean", model.NonLinear: "non-linear", model.MissingFile: "missing-migration"}[dec.Err]
			gotClass := errClass(err)
			if dec.Err == "version-not-pending" {
				if err == nil || !strings.Contains(err.Error(), "not found") {
					r.Fail(prop, "error-class", sig("version-not-pending-misreported"), "version %s is not among the pending files, executor returned %v", toVersion, err)
				}
				break
			}
			if dec.Err == model.BaselineNotFound {
				if err == nil || !strings.Contains(err.Error(), "baseline version") {
					r.Fail(prop, "error-class", sig("baseline-not-found-misreported"), "baseline %s does not exist, executor returned %v", o.Baseline, err)
				}
				break
			}
			if dec.Err == model.NotClean && err != nil && strings.Contains(err.Error(), "not clean") {
				gotClass = "not-clean"
			}
			if gotClass != wantClass {
				r.Fail(prop, "error-class", sig("expected-"+dec.Err), "documented decision is %s (out of order [%s], pending [%s]) but the executor returned %q (%v); dir %s history [%s]", dec.Err, names(dec.OutOfOrder), names(dec.Pending), gotClass, err, dirDesc(), revBefore)
				break
			}
			if dec.Err == model.NonLinear {
				var nl *migrate.HistoryNonLinearError
				errors.As(err, &nl)
				var goo, gp []string
				for _, f := range nl.OutOfOrder {
					goo = append(goo, f.Version())
				}
				for _, f := range nl.Pending {
					gp = append(gp, f.Version())
				}
				var woo, wp []string
				for _, f := range dec.OutOfOrder {
					woo = append(woo, f.Version)
				}
				for _, f := range dec.Pending {
					wp = append(wp, f.Version)
				}
				if fmt.Sprint(goo) != fmt.Sprint(woo) || fmt.Sprint(gp) != fmt.Sprint(wp) {
					r.Fail(prop, "pending-set", sig("non-linear-lists"), "non-linear error lists out-of-order %v pending %v, documented %v / %v", goo, gp, woo, wp)
				}
			}
			if dec.WriteBaseline != "" {
				// Nothing is pending after the baseline, but the baseline itself is recorded.
				if rv, ok := revs.Store[dec.WriteBaseline]; !ok || rv.Type != migrate.RevisionTypeBaseline || len(revs.Store) != 1 {
					r.Fail(prop, "baseline", sig("baseline-not-recorded"), "baseline %s was not recorded (history [%s])", dec.WriteBaseline, storeDigest(revs))
				}
			} else if storeDigest(revs) != revBefore {
				r.Fail(prop, "pending-set", sig("history-changed-by-refusal"), "a refused run changed the history: [%s] -> [%s]", revBefore, storeDigest(revs))
			}
		}
		// After an apply-to-version the same executor still works on the whole directory.
		if toVersion != "" && !r.Failed() && len(revs.Store) > 0 {
			after := model.Pending(modelFiles(), modelRevs(), o)
			got, perr := ex.Pending(ctx)
			var gv []string
			for _, f := range got {
				gv = append(gv, f.Version())
			}
			var wv []string
			for _, f := range after.Pending {
				wv = append(wv, f.Version)
			}
			switch after.Err {
			case model.OK:
				if perr != nil || fmt.Sprint(gv) != fmt.Sprint(wv) {
					r.Fail(prop, "pending-set", "executor-lost-the-directory-after-apply-to-version", "after ExecuteTo(%s) the same executor reports pending %v (err=%v); the directory and history give %v; dir %s history [%s]", strings.TrimLeft(toVersion, "0"), gv, perr, wv, dirDesc(), storeDigest(revs))
				}
			case model.NoPending:
				if !errors.Is(perr, migrate.ErrNoPendingFiles) {
					r.Fail(prop, "pending-set", "executor-lost-the-directory-after-apply-to-version", "after ExecuteTo(%s) nothing is pending, the same executor reports %v (err=%v)", strings.TrimLeft(toVersion, "0"), gv, perr)
				}
			}
		}
	}
}
