package execsim

import (
	"context"
	"errors"
	"fmt"
	"strings"

	"ariga.io/atlas/sql/migrate"

	"verif/sim/simkit"
)

// EditKinds of a partially applied file.
var EditKinds = []string{"change", "insert", "delete", "swap", "truncate", "append", "respace-literal", "move-boundary"}

// ApplyEdit edits a statement list. It returns the new list.
// delim is the file's own delimiter ("" = the default one, which is part of a statement's text).
func ApplyEdit(t *simkit.Tape, stmts []string, tag string, fresh *int, delim string) (out []string, kind string, at int) {
	kind = EditKinds[t.Draw("edit-kind", len(EditKinds))]
	newStmt := func() string {
		*fresh++
		if delim != "" {
			return stmtText(tag, 100+*fresh, 0)
		}
		return stmtText(tag, 100+*fresh, 0) + ";"
	}
	out = append([]string(nil), stmts...)
	n := len(out)
	switch kind {
	case "change":
		at = t.Draw("edit-at", n)
		out[at] = newStmt()
	case "insert":
		at = t.Draw("edit-at", n+1)
		out = append(out[:at], append([]string{newStmt()}, out[at:]...)...)
	case "delete":
		at = t.Draw("edit-at", n)
		out = append(out[:at], out[at+1:]...)
	case "swap":
		if n < 2 {
			kind, at = "change", 0
			out[0] = newStmt()
			break
		}
		at = t.Draw("edit-at", n-1)
		out[at], out[at+1] = out[at+1], out[at]
	case "truncate":
		at = t.Draw("edit-at", n) // new length, may be 0 and may be below the applied count
		out = out[:at]
	case "append":
		at = n
		out = append(out, newStmt())
	case "respace-literal":
		// Only the white space inside a string literal changes: another statement all the same.
		var cand []int
		for i, st := range out {
			if strings.Contains(st, "'a;b -- c'") {
				cand = append(cand, i)
			}
		}
		if len(cand) == 0 {
			kind, at = "change", t.Draw("edit-at", n)
			out[at] = newStmt()
			break
		}
		at = cand[t.Draw("edit-at", len(cand))]
		out[at] = strings.Replace(out[at], "'a;b -- c'", "'a;b  -- c'", 1)
	case "move-boundary":
		// The border between two statements moves by a few characters: both statements are others
		// now, their concatenation is what it was. (Needs a file with a delimiter of its own: the
		// default delimiter is part of the statement's text.)
		if delim == "" || n < 2 {
			kind, at = "change", t.Draw("edit-at", n)
			out[at] = newStmt()
			break
		}
		at = t.Draw("edit-at", n-1)
		out[at], out[at+1] = out[at]+out[at+1][:3], out[at+1][3:]
	}
	return
}

func renderStmts(stmts []string, delim string) string {
	var b strings.Builder
	if delim != "" {
		fmt.Fprintf(&b, "-- atlas:delimiter %s\n\n", delim)
	}
	for _, s := range stmts {
		b.WriteString(s)
		b.WriteString(delim + "\n")
	}
	return b.String()
}

type revView struct {
	Version, Desc string
	Type          migrate.RevisionType
	Applied       int
	Total         int
	Error         string
	ErrorStmt     string
	Hash          string
	Partial       string
}

func viewOf(rs []*migrate.Revision) []revView {
	out := make([]revView, len(rs))
	for i, r := range rs {
		out[i] = revView{r.Version, r.Description, r.Type, r.Applied, r.Total, r.Error, r.ErrorStmt, r.Hash, strings.Join(r.PartialHashes, ",")}
	}
	return out
}

// stampsOf renders the columns of the history that say when and by which release a row was written.
func stampsOf(rs []*migrate.Revision) string {
	var b strings.Builder
	for _, r := range rs {
		fmt.Fprintf(&b, "%s@%d/%s ", r.Version, r.ExecutedAt.UnixNano(), r.OperatorVersion)
	}
	return b.String()
}

// C12 — resuming a partially applied file whose applied part changed is refused, cleanly (API half).
func C12(r *simkit.Run) {
	const prop = "C12"
	t := r.T
	ctx := context.Background()
	// Directory: optional complete predecessor, the victim file, optional successor.
	var files []GenFile
	pre := t.Chance("predecessor", 1, 3)
	if pre {
		files = append(files, genFile(t, 1, "f1", t.Range("stmts", 1, 3)))
	}
	n := t.Range("victim-stmts", 1, 5)
	victim := genFile(t, 2, "f2", n)
	// Some files set a delimiter of their own (a directive on the first line); a statement's text is
	// then what stands between two delimiters.
	delim := ""
	if t.Chance("victim-sets-its-own-delimiter", 1, 4) {
		delim = ";;"
		for i, st := range victim.Stmts {
			victim.Stmts[i] = strings.TrimSuffix(st, ";")
		}
		victim.Body = renderStmts(victim.Stmts, delim)
		if st, err := migrate.NewLocalFile(victim.Name, []byte(victim.Body)).Stmts(); err != nil || strings.Join(st, "\x00") != strings.Join(victim.Stmts, "\x00") {
			simkit.Harnessf("file with its own delimiter scans differently: %v %q vs %q", err, st, victim.Stmts)
		}
		r.Probe("victim-sets-its-own-delimiter")
	}
	files = append(files, victim)
	vi := len(files) - 1
	post := t.Chance("successor", 1, 3)
	if post {
		files = append(files, genFile(t, 3, "f3", t.Range("stmts", 1, 3)))
	}
	dir := &migrate.MemDir{}
	if err := writeDir(dir, files); err != nil {
		simkit.Harnessf("writeDir: %v", err)
	}
	drv := &SimDriver{FailAlways: map[string]bool{}, FailOnce: map[string]bool{}}
	revs := NewSimRevs()
	ex, err := migrate.NewExecutor(drv, dir, revs)
	if err != nil {
		simkit.Harnessf("NewExecutor: %v", err)
	}
	// The partial state is produced by a fault: statement k of the victim fails.
	k := t.Draw("fail-at", n)
	// Or by a bookkeeping fault: the write after statement k-1 is persisted but reports an error
	// (acknowledgement lost); the run stops there and the revision is partial without error text.
	byWrite := k >= 1 && k < n && t.Chance("partial-by-write-fault", 1, 3)
	if byWrite {
		preWrites := 0
		if pre {
			preWrites = len(files[0].Stmts) + 2
		}
		revs.WriteFault[preWrites+1+k] = WriteAckLost
	} else {
		drv.FailAlways[victim.Stmts[k]] = true
	}
	err = ex.ExecuteN(ctx, 0)
	r.Step()
	rev, ok := revs.Store[victim.Version]
	if byWrite {
		r.Fired("bookkeeping-write-ack-lost")
		r.Logf("partial apply: write after stmt %d of %d persisted, ack lost -> %s store=[%s]", k-1, n, errClass(err), storeDigest(revs))
		r.Sample("%d-statement file, the bookkeeping write after statement %d is persisted but reports an error -> %s; history [%s]", n, k-1, errClass(err), storeDigest(revs))
		if !ok || rev.Applied != k || rev.Error != "" || err == nil {
			r.Fail(prop, "setup", "partial-state-not-produced", "expected a partial revision %d/%d without error text, got %+v err=%v", k, n, rev, err)
			return
		}
		revs.WriteFault = map[int]int{}
		r.Probe("partial-revision-without-error-text")
	} else {
		r.Fired("stmt-persistent")
		r.Logf("partial apply: fail at stmt %d of %d -> %s store=[%s]", k, n, errClass(err), storeDigest(revs))
		r.Sample("%d-statement file, statement %d fails -> %s; history [%s]", n, k, errClass(err), storeDigest(revs))
		if !ok || rev.Applied != k || errClass(err) != "stmt-error" {
			r.Fail(prop, "setup", "partial-state-not-produced", "expected a partial revision %d/%d, got %+v err=%v", k, n, rev, err)
			return
		}
	}
	if k > 0 {
		r.Probe("partial-with-applied-statements")
	}
	// The operator edits the file and re-hashes.
	fresh := 0
	newStmts, kind, at := ApplyEdit(t, victim.Stmts, "f2", &fresh, delim)
	drv.FailAlways = map[string]bool{} // the cause of the failure is gone
	touches := len(newStmts) < k
	for i := 0; i < k && i < len(newStmts); i++ {
		if newStmts[i] != victim.Stmts[i] {
			touches = true
		}
	}
	lenChange := "same-length"
	switch {
	case len(newStmts) > n:
		lenChange = "longer"
	case len(newStmts) < n:
		lenChange = "shorter"
	}
	if err := dir.WriteFile(victim.Name, []byte(renderStmts(newStmts, delim))); err != nil {
		simkit.Harnessf("write: %v", err)
	}
	sum, _ := dir.Checksum()
	if err := migrate.WriteSumFile(dir, sum); err != nil {
		simkit.Harnessf("sum: %v", err)
	}
	// The scanner must see what the editor wrote.
	scanned, serr := migrate.NewLocalFile(victim.Name, []byte(renderStmts(newStmts, delim))).Stmts()
	if serr != nil || strings.Join(scanned, "\x00") != strings.Join(newStmts, "\x00") {
		simkit.Harnessf("edited file scans differently: %v %q vs %q", serr, scanned, newStmts)
	}
	where := "tail-only"
	if touches {
		where = "touches-applied"
		r.Probe("edit-touches-applied-part")
		if len(newStmts) < k {
			r.Probe("fewer-statements-than-applied")
		}
	} else {
		r.Probe("edit-of-unapplied-tail")
		if lenChange != "same-length" {
			r.Probe("tail-edit-changes-length")
		}
	}
	r.Logf("edit %s at %d (%s, %s): %v", kind, at, where, lenChange, idsOf(newStmts))
	r.Sample("edit: %s at %d (%s, %s) -> statements %v; re-hash", kind, at, where, lenChange, idsOf(newStmts))
	// Sometimes the resumed run fails again, further down the same file.
	round2, j := false, 0
	if !touches && len(newStmts) > k && t.Chance("second-failure", 1, 2) {
		round2, j = true, k+t.Draw("second-fail-at", len(newStmts)-k)
		drv.FailAlways[newStmts[j]] = true
	}
	// The edited file is usually met by a later release of the tool.
	if t.Chance("resumed-by-another-operator-version", 1, 2) {
		if ex, err = migrate.NewExecutor(drv, dir, revs, migrate.WithOperatorVersion("sim-v2")); err != nil {
			simkit.Harnessf("NewExecutor: %v", err)
		}
	}
	before := viewOf(revs.Snapshot())
	stampsBefore := stampsOf(revs.Snapshot())
	nEffects := len(drv.Effects)
	call := func(label string) (err error, panicked string) {
		r.Step()
		defer func() {
			if p := recover(); p != nil {
				panicked = fmt.Sprint(p)
			}
		}()
		err = ex.ExecuteN(ctx, 0)
		return
	}
	err, pan := call("resume")
	acts := drv.Effects[nEffects:]
	var ids []string
	for _, a := range acts {
		ids = append(ids, StmtID(a.Stmt))
	}
	r.Logf("apply after edit -> %s panic=%v exec=%v store=[%s]", errClass(err), pan != "", ids, storeDigest(revs))
	r.Sample("apply after edit -> %s exec=%v history [%s]", errClass(err), ids, storeDigest(revs))
	r.Nontrivial()
	if pan != "" {
		r.Fail(prop, "no-crash", fmt.Sprintf("panic/%s/%s", where, lenChange), "Executor panicked when resuming the edited file (%s at %d, applied=%d, new length %d): %s", kind, at, k, len(newStmts), pan)
		return
	}
	if touches {
		var he migrate.HistoryChangedError
		if !errors.As(err, &he) {
			r.Fail(prop, "refuse", "not-refused/"+kind, "applied part changed (%s at %d, applied=%d) but the run returned %v instead of a history-changed error; executed %v", kind, at, k, err, ids)
			return
		}
		if len(acts) > 0 {
			r.Fail(prop, "refuse-clean", "executed-after-refusal", "history-changed was reported but %v were executed", ids)
			return
		}
		if after := viewOf(revs.Snapshot()); fmt.Sprint(after) != fmt.Sprint(before) {
			r.Fail(prop, "refuse-clean", "history-modified-on-refusal", "history-changed was reported but the history changed: before %v after %v", before, after)
			return
		}
		// Untouched means every column: when the statements were executed, and by which release.
		if after := stampsOf(revs.Snapshot()); after != stampsBefore {
			// (The instants themselves are wall-clock readings: they are compared, never printed.)
			var moved []string
			b, a := strings.Fields(stampsBefore), strings.Fields(after)
			for i := range a {
				if i < len(b) && a[i] != b[i] {
					moved = append(moved, a[i][:strings.IndexByte(a[i], '@')])
				}
			}
			r.Fail(prop, "refuse-clean", "history-restamped-on-refusal", "history-changed was reported but the refused run rewrote executed_at / operator_version of revision %v", moved)
			return
		}
		// A second attempt behaves the same.
		err2, pan2 := call("again")
		if pan2 != "" {
			r.Fail(prop, "no-crash", fmt.Sprintf("panic-second-attempt/%s/%s", where, lenChange), "Executor panicked on the second attempt: %s", pan2)
			return
		}
		if !errors.As(err2, &he) || len(drv.Effects) != nEffects {
			r.Fail(prop, "refuse", "second-attempt-not-refused/"+kind, "second attempt after a refusal returned %v and executed %d statements", err2, len(drv.Effects)-nEffects)
		}
		return
	}
	// Only the tail was edited: the run resumes with the new tail.
	if round2 {
		// The resumed run failed again further down (statement j of the new file): everything up to
		// it ran, the history records j, and after the cause is fixed the next run finishes the file.
		got := make([]string, len(acts))
		for i, a := range acts {
			got[i] = a.Stmt
		}
		wantPrefix := newStmts[k : j+1]
		rv := revs.Store[victim.Version]
		if strings.Join(got, "\x00") != strings.Join(wantPrefix, "\x00") || errClass(err) != "stmt-error" || rv == nil || rv.Applied != j {
			r.Fail(prop, "resume", fmt.Sprintf("resume/%s/%s", kind, lenChange), "tail-only edit (%s at %d, applied=%d) with statement %d failing: expected execution of %v and a revision recording %d, got %v err=%v revision %+v", kind, at, k, j, idsOf(wantPrefix), j, ids, err, rv)
			return
		}
		r.Probe("second-failure-in-the-same-file")
		drv.FailAlways = map[string]bool{}
		nEffects = len(drv.Effects)
		k = j
		err, pan = call("resume-2")
		acts = drv.Effects[nEffects:]
		ids = nil
		for _, a := range acts {
			ids = append(ids, StmtID(a.Stmt))
		}
		r.Logf("apply after second failure -> %s panic=%v exec=%v store=[%s]", errClass(err), pan != "", ids, storeDigest(revs))
		r.Sample("statement %d fails in the resumed run; cause fixed; apply again -> %s exec=%v history [%s]", j, errClass(err), ids, storeDigest(revs))
		if pan != "" {
			r.Fail(prop, "no-crash", "panic-second-resume/"+lenChange, "Executor panicked when resuming after the second failure: %s", pan)
			return
		}
	}
	want := append([]string(nil), newStmts[k:]...)
	if post {
		want = append(want, files[vi+1].Stmts...)
	}
	got := make([]string, len(acts))
	for i, a := range acts {
		got[i] = a.Stmt
		if !a.OK {
			simkit.Harnessf("statement failed without fault: %s", a.Stmt)
		}
	}
	if err != nil || strings.Join(got, "\x00") != strings.Join(want, "\x00") {
		r.Fail(prop, "resume", fmt.Sprintf("resume/%s/%s", kind, lenChange), "only the un-applied tail was edited (%s at %d, applied=%d): expected execution of %v, got %v err=%v", kind, at, k, idsOf(want), ids, err)
		return
	}
	rv := revs.Store[victim.Version]
	if rv == nil || rv.Applied != len(newStmts) || rv.Total != len(newStmts) || rv.Error != "" {
		r.Fail(prop, "resume-complete", "resume-incomplete/"+lenChange, "after resuming with the new tail the revision is %d/%d error=%q; the file has %d statements (so it should be %d/%d and complete)", rv.Applied, rv.Total, rv.Error, len(newStmts), len(newStmts), len(newStmts))
		return
	}
	err3, pan3 := call("after")
	r.Logf("next apply -> %s panic=%v", errClass(err3), pan3 != "")
	if pan3 != "" {
		r.Fail(prop, "no-crash", "panic-after-resume/"+lenChange, "Executor panicked on the run after a successful resume: %s", pan3)
		return
	}
	if !errors.Is(err3, migrate.ErrNoPendingFiles) || len(drv.Effects) != nEffects+len(acts) {
		r.Fail(prop, "resume-complete", "not-quiescent-after-resume/"+lenChange, "the run after a successful resume returned %v and executed %d statements", err3, len(drv.Effects)-nEffects-len(acts))
	}
}
