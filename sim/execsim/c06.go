package execsim

import (
	"bytes"
	"context"
	"crypto/sha256"
	"encoding/base64"
	"errors"
	"fmt"
	"io/fs"
	"os"
	"path/filepath"
	"sort"
	"strings"

	"ariga.io/atlas/sql/migrate"

	"verif/sim/simkit"
)

const sumIgnoreLine = "-- atlas:sum ignore\n"

// disk is the adversary's view of the directory's storage: a real directory.
type disk struct{ path string }

func (d disk) read() map[string][]byte {
	out := map[string][]byte{}
	es, err := os.ReadDir(d.path)
	if err != nil {
		simkit.Harnessf("readdir: %v", err)
	}
	for _, e := range es {
		b, err := os.ReadFile(filepath.Join(d.path, e.Name()))
		if err != nil {
			simkit.Harnessf("read: %v", err)
		}
		out[e.Name()] = b
	}
	return out
}

func (d disk) write(name string, b []byte) {
	if err := os.WriteFile(filepath.Join(d.path, name), b, 0o644); err != nil {
		simkit.Harnessf("write: %v", err)
	}
}

func (d disk) remove(name string) {
	if err := os.Remove(filepath.Join(d.path, name)); err != nil {
		simkit.Harnessf("remove: %v", err)
	}
}

func sqlNames(m map[string][]byte) []string {
	var out []string
	for n := range m {
		if strings.HasSuffix(n, ".sql") {
			out = append(out, n)
		}
	}
	sort.Strings(out)
	return out
}

// RefSum is an independent implementation of the documented atlas.sum format:
// "h1:<sum of entries>" followed by one "<name> h1:<cumulative sha256 of names and contents>"
// line per file in name order; for a file whose first line is the sum-ignore directive the
// name still feeds the cumulative hash, its content does not, and it gets no line.
// ok is false when a file's first line is something the reference does not model.
func RefSum(m map[string][]byte) (text string, ok bool) {
	h := sha256.New()
	var lines []string
	entries := sha256.New()
	for _, n := range sqlNames(m) {
		b := m[n]
		first := string(b)
		if i := strings.IndexByte(first, '\n'); i >= 0 {
			first = first[:i+1]
		}
		h.Write([]byte(n))
		if first == sumIgnoreLine {
			continue
		}
		if strings.Contains(first, "atlas:sum") {
			return "", false // a sum directive in a form the reference does not model
		}
		h.Write(b)
		sum := base64.StdEncoding.EncodeToString(h.Sum(nil))
		lines = append(lines, n+" h1:"+sum+"\n")
		entries.Write([]byte(n))
		entries.Write([]byte(sum))
	}
	return "h1:" + base64.StdEncoding.EncodeToString(entries.Sum(nil)) + "\n" + strings.Join(lines, ""), true
}

// RefValid is the reference verdict for a directory.
func RefValid(m map[string][]byte) (valid, ok bool) {
	sum, has := m[migrate.HashFileName]
	if !has {
		return len(sqlNames(m)) == 0, true
	}
	want, ok := RefSum(m)
	if !ok {
		return false, false
	}
	// The parsed content is compared: a missing final newline is the same sum file.
	return strings.TrimSuffix(string(sum), "\n") == strings.TrimSuffix(want, "\n"), true
}

func checksumClass(err error) bool {
	var ce *migrate.ChecksumError
	return errors.Is(err, migrate.ErrChecksumMismatch) || errors.Is(err, migrate.ErrChecksumFormat) ||
		errors.Is(err, migrate.ErrChecksumNotFound) || errors.As(err, &ce)
}

// C06 — directory integrity: tampering is detected, an untouched directory validates,
// every writer leaves the directory valid (API half, with write faults at the Dir seam).
func C06(r *simkit.Run) {
	const prop = "C06"
	t := r.T
	root, err := os.MkdirTemp(os.Getenv("VERIF_SCRATCH"), "c06-")
	if err != nil {
		simkit.Harnessf("mkdtemp: %v", err)
	}
	defer os.RemoveAll(root)
	dk := disk{root}
	local, err := migrate.NewLocalDir(root)
	if err != nil {
		simkit.Harnessf("NewLocalDir: %v", err)
	}
	fd := &FaultDir{CheckpointDir: local, Fault: map[int]int{}}
	fd.OnFault = func(n int, name string, mode int) {
		kind := map[int]string{DirWriteFailNone: "dir-write-fails", DirWriteTorn: "dir-write-torn", DirWriteFailAll: "dir-write-error-after-durable"}[mode]
		what := "file"
		if name == migrate.HashFileName {
			what = "sum"
		}
		r.Fired(kind + "/" + what)
		r.Logf("  fault %s on %s", kind, what)
	}
	validate := func() (err error, pan string) {
		defer func() {
			if p := recover(); p != nil {
				pan = fmt.Sprint(p)
			}
		}()
		return migrate.Validate(local), ""
	}
	next := 1
	newName := func(pos string, m map[string][]byte) string {
		names := sqlNames(m)
		switch {
		case pos == "first" && len(names) > 0:
			return "10000000000000_zfirst" + fmt.Sprint(next) + ".sql"
		case pos == "middle" && len(names) > 1:
			a := names[len(names)/2-1]
			return a[:14] + "_m" + fmt.Sprint(next) + ".sql" // sorts right after a's version prefix group
		}
		return fmt.Sprintf("%014d_n%d.sql", 20240101000000+next, next)
	}
	body := func() string {
		next++
		return fmt.Sprintf("CREATE TABLE t%d (c int);\nINSERT INTO t%d VALUES (%d);\n", next, next, next)
	}
	planner := migrate.NewPlanner(nil, fd)
	check := func(step string, writerOK bool, mustDetect bool, validBefore bool) (validNow bool) {
		verr, pan := validate()
		m := dk.read()
		rv, rok := RefValid(m)
		validNow = verr == nil && pan == ""
		r.Logf("%s -> valid=%v files=%d ref=%v/%v", step, validNow, len(sqlNames(m)), rv, rok)
		if pan != "" {
			r.Fail(prop, "no-crash", "validate-panic", "%s: migrate.Validate panicked: %s", step, pan)
			return
		}
		if verr != nil && !checksumClass(verr) {
			r.Fail(prop, "error-class", "non-checksum-error", "%s: Validate failed with a non-checksum error: %v", step, verr)
			return
		}
		if rok {
			r.Probe("ref-compared")
			if rv != validNow {
				which := "false-valid"
				if rv {
					which = "false-invalid"
				}
				r.Fail(prop, "integrity", which, "%s: Validate says valid=%v, the reference sum says %v (err=%v)", step, validNow, rv, verr)
				return
			}
		}
		if writerOK && !validNow {
			r.Fail(prop, "writer-leaves-valid", "writer-left-invalid", "%s succeeded but the directory does not validate: %v", step, verr)
			return
		}
		// Whatever consumes the directory validates it first: an executor asked to run it (all of it,
		// or up to one of its versions) refuses a directory that does not validate and executes nothing.
		if names := sqlNames(m); !validNow && len(names) > 0 && t.Chance("consumer-on-invalid-directory", 1, 3) {
			drv := &SimDriver{FailAlways: map[string]bool{}, FailOnce: map[string]bool{}}
			ex, err := migrate.NewExecutor(drv, local, NewSimRevs(), migrate.WithAllowDirty(true))
			if err != nil {
				simkit.Harnessf("NewExecutor: %v", err)
			}
			how := "ExecuteN(0)"
			var xerr error
			func() {
				defer func() {
					if p := recover(); p != nil {
						xerr = fmt.Errorf("panic: %v", p)
						pan = fmt.Sprint(p)
					}
				}()
				if t.Chance("consumer-to-version", 1, 2) {
					files, ferr := local.Files()
					if ferr != nil || len(files) == 0 {
						xerr = migrate.ErrChecksumMismatch // unreadable: nothing to ask for
						return
					}
					v := files[t.Draw("consumer-version", len(files))].Version()
					how = "ExecuteTo(" + v + ")"
					xerr = ex.ExecuteTo(context.Background(), v)
				} else {
					xerr = ex.ExecuteN(context.Background(), 0)
				}
			}()
			r.Fired("consumer/executor")
			r.Logf("  %s on the invalid directory -> %v (%d statements)", how, xerr, len(drv.Effects))
			switch {
			case pan != "":
				r.Fail(prop, "no-crash", "executor-panic", "%s: %s panicked: %s", step, how, pan)
				return
			case xerr == nil || len(drv.Effects) > 0:
				r.Fail(prop, "integrity", "executor-accepts-tampered-dir/"+strings.SplitN(how, "(", 2)[0], "%s: the directory does not validate (%v), yet %s ran %d statements and returned %v", step, verr, how, len(drv.Effects), xerr)
				return
			}
		}
		if mustDetect && validBefore {
			r.Probe("tamper-on-valid-directory")
		}
		if mustDetect && validBefore && validNow {
			r.Fail(prop, "integrity", "tamper-undetected/"+strings.Fields(step)[0], "%s on a valid directory was not detected", step)
		}
		return
	}
	valid := check("empty directory", false, false, false)
	if !valid {
		r.Fail(prop, "integrity", "empty-dir-invalid", "an empty directory does not validate")
		return
	}
	steps := t.Range("steps", 3, 12)
	for s := 0; s < steps && !r.Failed(); s++ {
		r.Step()
		m := dk.read()
		names := sqlNames(m)
		act := t.Weighted("actor", 3, 4)
		if len(names) == 0 {
			act = 0
		}
		if act == 0 {
			// A writer, possibly with a disk fault inside.
			if t.Chance("disk-fault", 1, 4) {
				mode := []int{DirWriteFailNone, DirWriteTorn, DirWriteFailAll}[t.Draw("disk-fault-mode", 3)]
				fd.Fault[fd.Writes+1+t.Draw("disk-fault-offset", 2)] = mode
				r.Configured("dir-write-fault")
			}
			var werr error
			var what string
			switch t.Weighted("writer", 4, 2, 2, 1) {
			case 0:
				next++
				v := fmt.Sprintf("%014d", 20240101000000+next)
				what = "WritePlan " + v
				name := fmt.Sprintf("p%d", next)
				// A file name is free text: it may hold what a format string or a sum-file line gives a meaning to.
				switch t.Weighted("plan-name", 8, 1, 1) {
				case 1:
					name += "_50%"
					r.Probe("file-name-with-a-percent-sign")
				case 2:
					name = "h1:" + name
					r.Probe("file-name-reads-like-a-sum-entry")
				}
				werr = planner.WritePlan(&migrate.Plan{Version: v, Name: name, Changes: []*migrate.Change{{Cmd: fmt.Sprintf("CREATE TABLE p%d (c int)", next), Comment: "create"}, {Cmd: fmt.Sprintf("INSERT INTO p%d VALUES (1)", next)}}})
			case 1:
				next++
				v := fmt.Sprintf("%014d", 20240101000000+next)
				what = "WriteCheckpoint " + v
				werr = planner.WriteCheckpoint(&migrate.Plan{Version: v, Name: "ck", Changes: []*migrate.Change{{Cmd: fmt.Sprintf("CREATE TABLE c%d (c int)", next)}}}, "")
			case 2:
				what = "WriteSumFile (migrate hash)"
				var sum migrate.HashFile
				if sum, werr = fd.Checksum(); werr == nil {
					werr = migrate.WriteSumFile(fd, sum)
				}
			default:
				what = "MemDir.CopyFiles"
				fs, err := local.Files()
				if err != nil {
					simkit.Harnessf("files: %v", err)
				}
				mem := &migrate.MemDir{}
				werr = mem.CopyFiles(fs)
				if werr == nil {
					if verr := migrate.Validate(mem); verr != nil {
						r.Fail(prop, "writer-leaves-valid", "copyfiles-left-invalid", "MemDir.CopyFiles succeeded but the copy does not validate: %v", verr)
					}
				}
				r.Logf("%s err=%v", what, werr != nil)
				continue
			}
			r.Sample("%s -> err=%v", what, werr != nil)
			valid = check(what, werr == nil, false, valid)
			if werr != nil && valid {
				r.Probe("valid-after-failed-write")
			}
			// Faults that did not fire stay armed only for this writer.
			fd.Fault = map[int]int{}
			continue
		}
		// The adversary (human, merge, disk) edits the storage directly.
		must := true
		var what string
		pick := func() string { return names[t.Draw("file", len(names))] }
		isIgnored := func(n string) bool { return strings.HasPrefix(string(m[n]), sumIgnoreLine) }
		// The name of a sum-ignored file still feeds the cumulative hash: adding, removing or
		// renaming it is detectable exactly when a hashed file sorts after it.
		hashedAfter := func(n string) bool {
			for _, o := range names {
				if o > n && !isIgnored(o) {
					return true
				}
			}
			return false
		}
		switch t.Weighted("tamper", 4, 2, 2, 2, 2, 1, 1, 1, 4, 1, 1, 2) {
		case 0: // flip / insert / delete one byte
			n := pick()
			b := append([]byte(nil), m[n]...)
			if len(b) == 0 {
				b = []byte("x")
				what = "insert-byte " + n
			} else {
				lo := 0
				if isIgnored(n) {
					lo = len(sumIgnoreLine)
					must = false // the body of a sum-ignored file is outside the integrity domain
					r.Probe("edit-body-of-sum-ignored-file")
				}
				if lo >= len(b) {
					b = append(b, 'x')
					what = "insert-byte " + n
				} else {
					p := lo + t.Draw("byte-pos", len(b)-lo)
					// Sometimes the one inserted byte is a carriage return in front of a line feed (an
					// editor or a checkout that rewrites line endings).
					if k := bytes.IndexByte(b[p:], '\n'); k >= 0 && t.Chance("insert-carriage-return", 1, 5) {
						p += k
						b = append(b[:p], append([]byte{'\r'}, b[p:]...)...)
						what = "insert-carriage-return " + n
						dk.write(n, b)
						break
					}
					switch t.Draw("byte-op", 3) {
					case 0:
						b[p] ^= 0x01
						what = "flip-byte " + n
					case 1:
						b = append(b[:p], append([]byte{'x'}, b[p:]...)...)
						what = "insert-byte " + n
					default:
						b = append(b[:p], b[p+1:]...)
						what = "delete-byte " + n
					}
				}
			}
			dk.write(n, b)
		case 1: // add a file
			pos := []string{"first", "middle", "last"}[t.Draw("add-pos", 3)]
			n := newName(pos, m)
			if _, exists := m[n]; exists {
				continue
			}
			if t.Chance("added-file-is-sum-ignored", 1, 4) {
				if !hashedAfter(n) {
					continue
				}
				dk.write(n, []byte(sumIgnoreLine+body()))
				what = "add-ignored-file(" + pos + ") " + n
				r.Probe("sum-ignored-file-added-removed-renamed")
				break
			}
			dk.write(n, []byte(body()))
			what = "add-file(" + pos + ") " + n
		case 2: // remove
			n := pick()
			if isIgnored(n) {
				if !hashedAfter(n) {
					continue
				}
				r.Probe("sum-ignored-file-added-removed-renamed")
			}
			dk.remove(n)
			what = "remove-file " + n
		case 3: // rename
			n := pick()
			ign := isIgnored(n)
			nn := n[:len(n)-4] + "x.sql" // order-preserving in most directories
			if t.Chance("rename-reorders", 1, 2) {
				nn = "3" + n[1:]
			}
			if _, exists := m[nn]; exists || nn == n {
				continue
			}
			if ign {
				if !hashedAfter(n) || !hashedAfter(nn) {
					continue
				}
				r.Probe("sum-ignored-file-added-removed-renamed")
			}
			dk.write(nn, m[n])
			dk.remove(n)
			what = "rename-file " + n + " -> " + nn
		case 4: // swap contents
			if len(names) < 2 {
				continue
			}
			a, b := pick(), pick()
			if a == b || string(m[a]) == string(m[b]) || isIgnored(a) || isIgnored(b) {
				continue
			}
			dk.write(a, m[b])
			dk.write(b, m[a])
			what = "swap-contents " + a + " " + b
		case 5: // gain the sum-ignore first line
			n := pick()
			if isIgnored(n) {
				continue
			}
			dk.write(n, append([]byte(sumIgnoreLine), m[n]...))
			what = "gain-sum-ignore " + n
			r.Probe("sum-ignore-directive-present")
		case 6: // lose the sum-ignore first line
			n := pick()
			if !isIgnored(n) {
				continue
			}
			dk.write(n, m[n][len(sumIgnoreLine):])
			what = "lose-sum-ignore " + n
		case 7: // a non-.sql file is outside the integrity domain
			dk.write(fmt.Sprintf("README%d.md", next), []byte("notes"))
			next++
			what = "add-non-sql-file"
			must = false
		case 8: // edit atlas.sum
			sb, ok := m[migrate.HashFileName]
			if !ok {
				continue
			}
			lines := strings.SplitAfter(string(sb), "\n")
			if lines[len(lines)-1] == "" {
				lines = lines[:len(lines)-1]
			}
			switch op := t.Draw("sum-edit", 5); {
			case op == 0 || len(lines) < 2: // replace one character
				li := t.Draw("sum-line", len(lines))
				l := []byte(lines[li])
				body := len(l) - 1 // keep the newline
				if body <= 0 {
					continue
				}
				p := t.Draw("sum-char", body)
				if l[p] == ' ' {
					continue // whitespace edits are not generated
				}
				if l[p] == 'Z' {
					l[p] = 'Y'
				} else {
					l[p] = 'Z'
				}
				lines[li] = string(l)
				what = fmt.Sprintf("sum-replace-char line %d", li)
			case op == 1: // delete an entry line
				li := 1 + t.Draw("sum-line", len(lines)-1)
				lines = append(lines[:li], lines[li+1:]...)
				what = "sum-delete-line"
			case op == 2: // duplicate an entry line
				li := 1 + t.Draw("sum-line", len(lines)-1)
				lines = append(lines[:li+1], lines[li:]...)
				what = "sum-duplicate-line"
			case op == 4: // the stored sum of the header line is wiped: the line is blanked or cut down to its prefix
				if t.Chance("header-keeps-its-prefix", 1, 2) {
					lines[0] = "h1:\n"
				} else {
					lines[0] = "\n"
				}
				what = "sum-blank-header"
				r.Probe("sum-file-header-blanked")
			default: // swap two entry lines
				if len(lines) < 3 {
					continue
				}
				li := 1 + t.Draw("sum-line", len(lines)-2)
				if lines[li] == lines[li+1] {
					continue
				}
				lines[li], lines[li+1] = lines[li+1], lines[li]
				what = "sum-swap-lines"
			}
			dk.write(migrate.HashFileName, []byte(strings.Join(lines, "")))
			r.Probe("sum-file-edited")
		case 11: // atlas.sum rewritten so that it is consistent with itself (header recomputed) but not with the directory
			sb, ok := m[migrate.HashFileName]
			if !ok {
				continue
			}
			lines := strings.Split(strings.TrimSuffix(string(sb), "\n"), "\n")
			if len(lines) < 3 || !strings.HasPrefix(lines[0], "h1:") {
				continue
			}
			type ent struct{ name, sum string }
			var es []ent
			bad := false
			for _, l := range lines[1:] {
				k := strings.LastIndex(l, " h1:")
				if k < 0 {
					bad = true
					break
				}
				es = append(es, ent{l[:k], l[k+4:]})
			}
			if bad || len(es) < 2 {
				continue
			}
			// Never the last entry: its cumulative hash alone pins the whole byte stream.
			i := t.Draw("entry", len(es)-1)
			switch t.Draw("self-consistent-edit", 4) {
			case 3:
				// Two entry lines joined into one (" h1:" and the line break between them removed): the
				// file lists other entries, and the stream of names and hashes it is summed over is the same.
				es[i+1].name = es[i].name + es[i].sum + es[i+1].name
				es = append(es[:i:i], es[i+1:]...)
				what = fmt.Sprintf("sum-join-entries %d,%d (header unchanged)", i, i+1)
				r.Probe("sum-file-entries-joined")
			case 0:
				c := []byte(es[i].sum)
				if c[0] == 'Z' {
					c[0] = 'Y'
				} else {
					c[0] = 'Z'
				}
				es[i].sum = string(c)
				what = fmt.Sprintf("sum-rewrite-hash entry %d (header recomputed)", i)
			case 1:
				es[i].name = "0" + es[i].name
				what = fmt.Sprintf("sum-rewrite-name entry %d (header recomputed)", i)
			default:
				if i+1 >= len(es)-1 || es[i] == es[i+1] {
					continue
				}
				es[i], es[i+1] = es[i+1], es[i]
				what = fmt.Sprintf("sum-rewrite-swap entries %d,%d (header recomputed)", i, i+1)
			}
			hh := sha256.New()
			var out strings.Builder
			for _, e := range es {
				hh.Write([]byte(e.name))
				hh.Write([]byte(e.sum))
			}
			out.WriteString("h1:" + base64.StdEncoding.EncodeToString(hh.Sum(nil)) + "\n")
			for _, e := range es {
				out.WriteString(e.name + " h1:" + e.sum + "\n")
			}
			dk.write(migrate.HashFileName, []byte(out.String()))
			r.Probe("sum-file-rewritten-self-consistently")
		case 9: // remove atlas.sum
			if _, ok := m[migrate.HashFileName]; !ok {
				continue
			}
			dk.remove(migrate.HashFileName)
			what = "remove-sum-file"
		default: // torn atlas.sum left by a crashed writer
			sb, ok := m[migrate.HashFileName]
			if !ok || len(sb) < 2 {
				continue
			}
			dk.write(migrate.HashFileName, sb[:1+t.Draw("torn-at", len(sb)-1)])
			what = "sum-truncated"
			// Cutting only the final newline leaves the parsed content unchanged.
			if len(dk.read()[migrate.HashFileName]) == len(sb)-1 {
				must = false
			}
			r.Probe("torn-sum-file")
		}
		if what == "" {
			continue
		}
		r.Fired("tamper/" + strings.Fields(what)[0])
		r.Sample("%s (valid before=%v)", what, valid)
		valid = check(what, false, must, valid)
	}
	_ = fs.ErrNotExist
}
