// Package execsim is engine E-A: the real migrate.Executor, directory, scanner and
// hashing code, driven in-process against a stub database and a stub revision store
// through which the simulator injects faults.
package execsim

import (
	"context"
	"database/sql"
	"errors"
	"fmt"
	"io/fs"
	"sort"
	"time"

	"ariga.io/atlas/sql/migrate"
	"ariga.io/atlas/sql/schema"
)

// Effect is one ExecContext call seen by the simulated database.
type Effect struct {
	Call int    // index of the executor call (ExecuteN / Execute) that issued it
	Stmt string // statement text
	OK   bool
}

// SimDriver is the simulated database: it records every statement and fails
// statements according to the fault plan. It is not transactional.
type SimDriver struct {
	Effects []Effect
	Call    int
	// FailAlways: statements that fail until removed ("fixed"); FailOnce: fail the next time only.
	FailAlways map[string]bool
	FailOnce   map[string]bool
	OnFail     func(stmt string)
	Dirty      bool // CheckClean reports not clean
	Locked     bool
}

var _ migrate.Driver = (*SimDriver)(nil)

type simResult struct{}

func (simResult) LastInsertId() (int64, error) { return 0, nil }
func (simResult) RowsAffected() (int64, error) { return 0, nil }

// ExecContext implements schema.ExecQuerier.
func (d *SimDriver) ExecContext(_ context.Context, q string, _ ...any) (sql.Result, error) {
	if d.FailAlways[q] || d.FailOnce[q] {
		delete(d.FailOnce, q)
		d.Effects = append(d.Effects, Effect{d.Call, q, false})
		if d.OnFail != nil {
			d.OnFail(q)
		}
		return nil, fmt.Errorf("simulated statement failure")
	}
	d.Effects = append(d.Effects, Effect{d.Call, q, true})
	return simResult{}, nil
}

// QueryContext implements schema.ExecQuerier.
func (d *SimDriver) QueryContext(context.Context, string, ...any) (*sql.Rows, error) {
	return nil, errors.New("simdriver: QueryContext not supported")
}

// InspectSchema implements schema.Inspector.
func (d *SimDriver) InspectSchema(context.Context, string, *schema.InspectOptions) (*schema.Schema, error) {
	return schema.New("main"), nil
}

// InspectRealm implements schema.Inspector.
func (d *SimDriver) InspectRealm(context.Context, *schema.InspectRealmOption) (*schema.Realm, error) {
	return schema.NewRealm(schema.New("main")), nil
}

// RealmDiff implements schema.Differ.
func (d *SimDriver) RealmDiff(_, _ *schema.Realm, _ ...schema.DiffOption) ([]schema.Change, error) {
	return nil, nil
}

// SchemaDiff implements schema.Differ.
func (d *SimDriver) SchemaDiff(_, _ *schema.Schema, _ ...schema.DiffOption) ([]schema.Change, error) {
	return nil, nil
}

// TableDiff implements schema.Differ.
func (d *SimDriver) TableDiff(_, _ *schema.Table, _ ...schema.DiffOption) ([]schema.Change, error) {
	return nil, nil
}

// Lock implements schema.Locker.
func (d *SimDriver) Lock(context.Context, string, time.Duration) (schema.UnlockFunc, error) {
	if d.Locked {
		return nil, schema.ErrLocked
	}
	d.Locked = true
	return func() error { d.Locked = false; return nil }, nil
}

// PlanChanges implements migrate.PlanApplier.
func (d *SimDriver) PlanChanges(context.Context, string, []schema.Change, ...migrate.PlanOption) (*migrate.Plan, error) {
	return nil, errors.New("simdriver: PlanChanges not supported")
}

// ApplyChanges implements migrate.PlanApplier.
func (d *SimDriver) ApplyChanges(context.Context, []schema.Change, ...migrate.PlanOption) error {
	return errors.New("simdriver: ApplyChanges not supported")
}

// Snapshot implements migrate.Snapshoter.
func (d *SimDriver) Snapshot(context.Context) (migrate.RestoreFunc, error) {
	return func(context.Context) error { return nil }, nil
}

// CheckClean implements migrate.CleanChecker.
func (d *SimDriver) CheckClean(context.Context, *migrate.TableIdent) error {
	if d.Dirty {
		return &migrate.NotCleanError{Reason: "simulated: found table \"users\""}
	}
	return nil
}

// Write-fault modes of the simulated revision store.
const (
	WriteOK      = iota
	WriteLost    // error returned, nothing persisted
	WriteAckLost // persisted, error returned
)

// SimRevs is the simulated revision store. It keeps deep copies, so the executor
// mutating its *Revision after a write never changes what was "persisted".
type SimRevs struct {
	Store map[string]*migrate.Revision
	// Writes counts WriteRevision calls; WriteFault maps a write number (1-based,
	// counted over the whole run) to a fault mode.
	Writes     int
	WriteFault map[int]int
	Reads      int
	ReadFault  map[int]bool
	// OnWrite is called for every write with the fault mode applied.
	OnWrite     func(n int, r *migrate.Revision, mode int)
	OnReadFault func(n int)
}

var _ migrate.RevisionReadWriter = (*SimRevs)(nil)

// NewSimRevs returns an empty store.
func NewSimRevs() *SimRevs {
	return &SimRevs{Store: map[string]*migrate.Revision{}, WriteFault: map[int]int{}, ReadFault: map[int]bool{}}
}

func cloneRev(r *migrate.Revision) *migrate.Revision {
	c := *r
	c.PartialHashes = append([]string(nil), r.PartialHashes...)
	return &c
}

// Ident implements migrate.RevisionReadWriter.
func (s *SimRevs) Ident() *migrate.TableIdent {
	return &migrate.TableIdent{Name: "atlas_schema_revisions"}
}

func (s *SimRevs) readFault() error {
	s.Reads++
	if s.ReadFault[s.Reads] {
		if s.OnReadFault != nil {
			s.OnReadFault(s.Reads)
		}
		return errors.New("simulated revision read failure")
	}
	return nil
}

// ReadRevisions implements migrate.RevisionReadWriter (ordered by version, like the ent store).
func (s *SimRevs) ReadRevisions(context.Context) ([]*migrate.Revision, error) {
	if err := s.readFault(); err != nil {
		return nil, err
	}
	return s.Snapshot(), nil
}

// Snapshot returns copies of all revisions ordered by version, without counting as a read.
func (s *SimRevs) Snapshot() []*migrate.Revision {
	vs := make([]string, 0, len(s.Store))
	for v := range s.Store {
		vs = append(vs, v)
	}
	sort.Strings(vs)
	out := make([]*migrate.Revision, len(vs))
	for i, v := range vs {
		out[i] = cloneRev(s.Store[v])
	}
	return out
}

// ReadRevision implements migrate.RevisionReadWriter.
func (s *SimRevs) ReadRevision(_ context.Context, v string) (*migrate.Revision, error) {
	if err := s.readFault(); err != nil {
		return nil, err
	}
	r, ok := s.Store[v]
	if !ok {
		return nil, migrate.ErrRevisionNotExist
	}
	return cloneRev(r), nil
}

// WriteRevision implements migrate.RevisionReadWriter.
func (s *SimRevs) WriteRevision(_ context.Context, r *migrate.Revision) error {
	s.Writes++
	mode := s.WriteFault[s.Writes]
	if s.OnWrite != nil {
		s.OnWrite(s.Writes, r, mode)
	}
	switch mode {
	case WriteLost:
		return errors.New("simulated revision write failure (lost)")
	case WriteAckLost:
		s.Store[r.Version] = cloneRev(r)
		return errors.New("simulated revision write failure (persisted, ack lost)")
	}
	s.Store[r.Version] = cloneRev(r)
	return nil
}

// DeleteRevision implements migrate.RevisionReadWriter.
func (s *SimRevs) DeleteRevision(_ context.Context, v string) error {
	delete(s.Store, v)
	return nil
}

// FaultDir wraps a real directory and injects write faults at the Dir seam.
type FaultDir struct {
	migrate.CheckpointDir
	Writes int
	// Fault maps a write number to a mode.
	Fault   map[int]int
	OnFault func(n int, name string, mode int)
}

// Directory write fault modes.
const (
	DirWriteOK         = iota
	DirWriteFailNone   // error, nothing written
	DirWriteTorn       // error, a strict prefix written
	DirWriteFailAll    // error after everything was written
	DirWriteSilentTorn // a strict prefix written, no error (lost tail)
)

// WriteFile implements migrate.Dir.
func (d *FaultDir) WriteFile(name string, b []byte) error {
	d.Writes++
	mode := d.Fault[d.Writes]
	if mode != DirWriteOK && d.OnFault != nil {
		d.OnFault(d.Writes, name, mode)
	}
	switch mode {
	case DirWriteFailNone:
		return errors.New("simulated disk error: nothing written")
	case DirWriteTorn:
		cut := len(b) / 2
		if err := d.CheckpointDir.WriteFile(name, b[:cut]); err != nil {
			return err
		}
		return errors.New("simulated disk error: torn write")
	case DirWriteFailAll:
		if err := d.CheckpointDir.WriteFile(name, b); err != nil {
			return err
		}
		return errors.New("simulated disk error: error after durable write")
	}
	return d.CheckpointDir.WriteFile(name, b)
}

// WriteCheckpoint implements migrate.CheckpointDir on top of the faulty WriteFile.
func (d *FaultDir) WriteCheckpoint(name, tag string, b []byte) error {
	f := migrate.NewLocalFile(name, b)
	if tag != "" {
		f.AddDirective("checkpoint", tag)
	} else {
		f.AddDirective("checkpoint")
	}
	return d.WriteFile(name, f.Bytes())
}

var _ fs.FS = (*FaultDir)(nil)
