//go:build seamed

package detsim

import "ariga.io/atlas/verifmap"

// Seamed build: the simulator owns the iteration order of the rewritten map-range sites.
const Seamed = true

func setSeed(s uint64)     { verifmap.SetSeed(s) }
func hits() map[string]int { return verifmap.Hits() }
func resetHits()           { verifmap.ResetHits() }
