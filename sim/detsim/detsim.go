// Package detsim is engine E-D: determinism of plans, HCL, formatted files and directory
// sums under map-iteration order (a seam made by /verif/maprw in a scratch copy of the
// repository), declaration order, and interleaving of independent operations.
package detsim

import (
	"context"
	"crypto/sha256"
	"database/sql"
	"encoding/hex"
	"encoding/json"
	"errors"
	"fmt"
	"os"
	"os/exec"
	"sort"
	"strings"

	"ariga.io/atlas/schemahcl"
	"ariga.io/atlas/sql/migrate"
	"ariga.io/atlas/sql/mysql"
	"ariga.io/atlas/sql/postgres"
	"ariga.io/atlas/sql/schema"
	"ariga.io/atlas/sql/sqlite"
	"github.com/hashicorp/hcl/v2/hclparse"
	"github.com/zclconf/go-cty/cty"

	_ "github.com/mattn/go-sqlite3"

	"verif/sim/schemasim"
	"verif/sim/simkit"
)

type dialect struct {
	name    string
	diff    schema.Differ
	plan    migrate.PlanApplier
	marshal func(any) ([]byte, error)
	eval    func([]byte, any, map[string]cty.Value) error
	evalP   func(*hclparse.Parser, any, map[string]cty.Value) error
	intT    func() schema.Type
	textT   func() schema.Type
	boolT   func() schema.Type
	schema  string
}

var dialects = []dialect{
	{name: "sqlite", diff: sqlite.DefaultDiff, plan: sqlite.DefaultPlan, marshal: sqlite.MarshalHCL.MarshalSpec, eval: sqlite.EvalHCLBytes, evalP: sqlite.EvalHCL.Eval, schema: "main",
		intT: func() schema.Type { return &schema.IntegerType{T: "integer"} }, textT: func() schema.Type { return &schema.StringType{T: "text"} }, boolT: func() schema.Type { return &schema.BoolType{T: "boolean"} }},
	{name: "mysql", diff: mysql.DefaultDiff, plan: mysql.DefaultPlan, marshal: mysql.MarshalHCL.MarshalSpec, eval: mysql.EvalHCLBytes, evalP: mysql.EvalHCL.Eval, schema: "app",
		intT: func() schema.Type { return &schema.IntegerType{T: "int"} }, textT: func() schema.Type { return &schema.StringType{T: "varchar", Size: 255} }, boolT: func() schema.Type { return &schema.BoolType{T: "bool"} }},
	{name: "postgres", diff: postgres.DefaultDiff, plan: postgres.DefaultPlan, marshal: postgres.MarshalHCL.MarshalSpec, eval: postgres.EvalHCLBytes, evalP: postgres.EvalHCL.Eval, schema: "public",
		intT: func() schema.Type { return &schema.IntegerType{T: "integer"} }, textT: func() schema.Type { return &schema.StringType{T: "character varying", Size: 255} }, boolT: func() schema.Type { return &schema.BoolType{T: "boolean"} }},
}

// abstract schema model.
type dcol struct {
	Name, Kind string
	Null       bool
	Def        string
	Comment    string
}
type didx struct {
	Name   string
	Unique bool
	Cols   []string
}
type dfk struct{ Name, Col, Ref string }
type dchk struct{ Name, Expr string }
type dtbl struct {
	Name string
	Cols []dcol
	Idx  []didx
	FKs  []dfk
	Chk  []dchk
}
type dsch struct{ Tables []dtbl }

func genSchema(t *simkit.Tape, seq *int) dsch {
	var s dsch
	n := t.Range("tables", 2, 4)
	for i := 0; i < n; i++ {
		s.Tables = append(s.Tables, genTable(t, seq, s))
	}
	// Foreign keys from earlier to later tables close reference cycles.
	for i := 0; i+1 < len(s.Tables); i++ {
		if t.Chance("fk-cycle", 1, 3) {
			*seq++
			ref := s.Tables[i+1+t.Draw("cycle-ref", len(s.Tables)-i-1)].Name
			col := dcol{Name: fmt.Sprintf("r%d", *seq), Kind: "int", Null: true}
			s.Tables[i].Cols = append(s.Tables[i].Cols, col)
			s.Tables[i].FKs = append(s.Tables[i].FKs, dfk{Name: fmt.Sprintf("f%d", *seq), Col: col.Name, Ref: ref})
		}
	}
	return s
}

func genTable(t *simkit.Tape, seq *int, s dsch) dtbl {
	*seq++
	tb := dtbl{Name: fmt.Sprintf("t%d", *seq), Cols: []dcol{{Name: "id", Kind: "int"}}}
	for i, n := 0, t.Range("cols", 1, 4); i < n; i++ {
		*seq++
		c := dcol{Name: fmt.Sprintf("c%d", *seq), Kind: []string{"int", "text", "bool"}[t.Draw("kind", 3)], Null: t.Chance("null", 1, 2)}
		if t.Chance("default", 1, 3) {
			switch c.Kind {
			case "int":
				c.Def = fmt.Sprint(t.Draw("def", 9))
			case "text":
				c.Def = fmt.Sprintf("'d%d'", t.Draw("def", 9))
			}
		}
		tb.Cols = append(tb.Cols, c)
	}
	for i, n := 0, t.Draw("indexes", 4); i < n; i++ {
		*seq++
		c := tb.Cols[t.Draw("idx-col", len(tb.Cols))]
		if c.Kind == "bool" {
			continue
		}
		ix := didx{Name: fmt.Sprintf("i%d", *seq), Unique: t.Chance("unique", 1, 3), Cols: []string{c.Name}}
		if c2 := tb.Cols[t.Draw("idx-col2", len(tb.Cols))]; c2.Name != c.Name && c2.Kind != "bool" && t.Chance("two-cols", 1, 3) {
			ix.Cols = append(ix.Cols, c2.Name)
		}
		tb.Idx = append(tb.Idx, ix)
	}
	for i, n := 0, t.Draw("checks", 3); i < n; i++ {
		*seq++
		tb.Chk = append(tb.Chk, dchk{Name: fmt.Sprintf("k%d", *seq), Expr: fmt.Sprintf("id > %d", i)})
	}
	for i, n := 0, t.Draw("fks", 3); i < n && len(s.Tables) > 0; i++ {
		*seq++
		ref := s.Tables[t.Draw("fk-ref", len(s.Tables))].Name
		col := dcol{Name: fmt.Sprintf("r%d", *seq), Kind: "int", Null: true}
		tb.Cols = append(tb.Cols, col)
		tb.FKs = append(tb.FKs, dfk{Name: fmt.Sprintf("f%d", *seq), Col: col.Name, Ref: ref})
	}
	return tb
}

func (s dsch) clone() dsch {
	b, _ := json.Marshal(s)
	var o dsch
	json.Unmarshal(b, &o)
	return o
}

// edit derives B from A with a few elementary edits.
func edit(t *simkit.Tape, seq *int, a dsch) dsch {
	b := a.clone()
	if len(b.Tables) > 2 && t.Chance("drop-several-tables", 1, 4) {
		// Dropping tables that reference each other makes the planners detach the cycle first.
		keep := 1 + t.Draw("keep-tables", len(b.Tables)-2)
		gone := map[string]bool{}
		for _, tb := range b.Tables[keep:] {
			gone[tb.Name] = true
		}
		b.Tables = b.Tables[:keep]
		for j := range b.Tables {
			var fks []dfk
			for _, f := range b.Tables[j].FKs {
				if !gone[f.Ref] {
					fks = append(fks, f)
				}
			}
			b.Tables[j].FKs = fks
		}
	}
	for i, n := 0, t.Range("edits", 1, 4); i < n; i++ {
		ti := t.Draw("edit-table", len(b.Tables))
		tb := &b.Tables[ti]
		switch t.Draw("edit", 9) {
		case 8:
			// A column goes, and with it every index part and foreign key that uses it (an index whose
			// columns are all dropped is dropped by the engine itself: some planners leave it out).
			if ci := 1 + t.Draw("drop-col", len(tb.Cols)); ci < len(tb.Cols) {
				name := tb.Cols[ci].Name
				tb.Cols = append(tb.Cols[:ci:ci], tb.Cols[ci+1:]...)
				var idx []didx
				for _, ix := range tb.Idx {
					var cols []string
					for _, c := range ix.Cols {
						if c != name {
							cols = append(cols, c)
						}
					}
					if len(cols) > 0 {
						ix.Cols = cols
						idx = append(idx, ix)
					}
				}
				tb.Idx = idx
				var fks []dfk
				for _, f := range tb.FKs {
					if f.Col != name {
						fks = append(fks, f)
					}
				}
				tb.FKs = fks
			}
		case 7:
			// An existing column changes in one or more respects at once (the planners split such a
			// change over several statements: a comment is a statement of its own in PostgreSQL).
			if ci := 1 + t.Draw("modify-col", len(tb.Cols)); ci < len(tb.Cols) {
				c := &tb.Cols[ci]
				*seq++
				what := 1 + t.Draw("modify-what", 7)
				if what&1 != 0 {
					c.Comment = fmt.Sprintf("note %d", *seq)
				}
				if what&2 != 0 {
					c.Null = !c.Null
				}
				if what&4 != 0 {
					switch c.Kind {
					case "int":
						c.Def = fmt.Sprint(10 + *seq)
					case "text":
						c.Def = fmt.Sprintf("'e%d'", *seq)
					}
				}
			}
		case 0:
			b.Tables = append(b.Tables, genTable(t, seq, b))
		case 1:
			if len(b.Tables) > 1 {
				name := tb.Name
				b.Tables = append(b.Tables[:ti], b.Tables[ti+1:]...)
				for j := range b.Tables {
					var fks []dfk
					for _, f := range b.Tables[j].FKs {
						if f.Ref != name {
							fks = append(fks, f)
						}
					}
					b.Tables[j].FKs = fks
				}
			}
		case 2:
			*seq++
			tb.Cols = append(tb.Cols, dcol{Name: fmt.Sprintf("c%d", *seq), Kind: "text", Null: true})
		case 3:
			*seq++
			tb.Idx = append(tb.Idx, didx{Name: fmt.Sprintf("i%d", *seq), Cols: []string{"id"}})
		case 4:
			if len(tb.Idx) > 0 {
				tb.Idx = tb.Idx[1:]
			}
		case 5:
			*seq++
			tb.Chk = append(tb.Chk, dchk{Name: fmt.Sprintf("k%d", *seq), Expr: "id >= 0"})
		default:
			if len(tb.FKs) > 0 {
				tb.FKs = tb.FKs[:len(tb.FKs)-1]
			}
		}
	}
	return b
}

// build makes the dialect's schema graph; perm (nil = declaration order) permutes the order in
// which tables, indexes, foreign keys and checks are listed.
func build(d dialect, s dsch, perm func(n int) []int) *schema.Schema {
	order := func(n int) []int {
		if perm == nil {
			p := make([]int, n)
			for i := range p {
				p[i] = i
			}
			return p
		}
		return perm(n)
	}
	as := schema.New(d.schema)
	by := map[string]*schema.Table{}
	tabs := make([]*schema.Table, len(s.Tables))
	for i, tb := range s.Tables {
		at := schema.NewTable(tb.Name)
		for _, c := range tb.Cols {
			var ty schema.Type
			switch c.Kind {
			case "int":
				ty = d.intT()
			case "text":
				ty = d.textT()
			default:
				ty = d.boolT()
			}
			col := schema.NewColumn(c.Name).SetType(ty).SetNull(c.Null)
			if c.Def != "" {
				col.SetDefault(&schema.Literal{V: c.Def})
			}
			if c.Comment != "" {
				col.SetComment(c.Comment)
			}
			at.AddColumns(col)
		}
		id, _ := at.Column("id")
		at.SetPrimaryKey(schema.NewPrimaryKey(id))
		for _, k := range order(len(tb.Idx)) {
			ix := tb.Idx[k]
			ai := schema.NewIndex(ix.Name).SetUnique(ix.Unique)
			for _, cn := range ix.Cols {
				c, _ := at.Column(cn)
				ai.AddColumns(c)
			}
			at.AddIndexes(ai)
		}
		for _, k := range order(len(tb.Chk)) {
			at.AddChecks(schema.NewCheck().SetName(tb.Chk[k].Name).SetExpr(tb.Chk[k].Expr))
		}
		tabs[i] = at
		by[tb.Name] = at
	}
	for i, tb := range s.Tables {
		for _, k := range order(len(tb.FKs)) {
			f := tb.FKs[k]
			rt := by[f.Ref]
			c, _ := tabs[i].Column(f.Col)
			rc, _ := rt.Column("id")
			tabs[i].AddForeignKeys(&schema.ForeignKey{Symbol: f.Name, Table: tabs[i], Columns: []*schema.Column{c}, RefTable: rt, RefColumns: []*schema.Column{rc}, OnDelete: schema.Cascade})
		}
	}
	for _, k := range order(len(tabs)) {
		as.AddTables(tabs[k])
	}
	schema.NewRealm(as)
	return as
}

// An op is an operation cut at call boundaries; steps run in order and the last one sets out.
type op struct {
	name  string
	steps []func() error
	out   []byte
}

func planOp(d dialect, a, b dsch, perm func(int) []int) *op {
	o := &op{name: "plan+format/" + d.name}
	var changes []schema.Change
	var plan *migrate.Plan
	o.steps = []func() error{
		func() (err error) {
			changes, err = d.diff.SchemaDiff(build(d, a, perm), build(d, b, perm))
			return err
		},
		func() (err error) {
			if len(changes) == 0 {
				plan = &migrate.Plan{}
				return nil
			}
			// A planner is shared by every plan of a driver (the package-level DefaultPlan by every plan
			// of the process): what one plan needs (a rebuild switches foreign keys off) must not show in
			// the next one. An unrelated, fixed change set is planned before and after the scenario's.
			neutral := []schema.Change{&schema.AddTable{T: schema.NewTable("neutral").SetSchema(schema.New(d.schema)).AddColumns(schema.NewColumn("id").SetType(d.intT()))}}
			before, err := d.plan.PlanChanges(context.Background(), "n", neutral)
			if err != nil {
				return fmt.Errorf("planning the neutral change: %w", err)
			}
			plan, err = d.plan.PlanChanges(context.Background(), "p", changes)
			if err != nil {
				return err
			}
			after, err := d.plan.PlanChanges(context.Background(), "n", neutral)
			if err != nil {
				return fmt.Errorf("planning the neutral change again: %w", err)
			}
			if a, b := planText(before), planText(after); a != b {
				return fmt.Errorf("%w: an unrelated change set planned before and after this one:\n--- before\n%s--- after\n%s--- the plan in between\n%s", errReplan, a, b, planText(plan))
			}
			// `schema apply` plans the change set to show it and plans the same objects again to
			// apply it: planning must not leave anything behind in its input.
			again, err := d.plan.PlanChanges(context.Background(), "p", changes)
			if err != nil {
				return fmt.Errorf("planning the same changes a second time: %w", err)
			}
			if a, b := planText(plan), planText(again); a != b {
				return fmt.Errorf("%w:\n--- first\n%s--- second\n%s", errReplan, a, b)
			}
			return nil
		},
		func() error {
			plan.Version, plan.Name = "20240101000000", "p"
			files, err := migrate.DefaultFormatter.Format(plan)
			if err != nil {
				return err
			}
			var b strings.Builder
			for _, c := range plan.Changes {
				b.WriteString(c.Cmd)
				b.WriteString(";\n")
			}
			b.WriteString("--file--\n")
			for _, f := range files {
				b.WriteString(f.Name() + "\n")
				b.Write(f.Bytes())
			}
			o.out = []byte(b.String())
			return nil
		},
	}
	return o
}

// caseTwinOp plans the creation of schema a plus, for every table, a twin whose name differs only
// in letter case (MySQL on a case-sensitive file system and PostgreSQL with quoted names keep both):
// wherever tables are ordered by name, such names must not be treated as equal.
func caseTwinOp(d dialect, a dsch) *op {
	o := &op{name: "plan-case-twins/" + d.name}
	o.steps = []func() error{func() error {
		tw := a.clone()
		for _, tb := range a.Tables {
			c := dsch{Tables: []dtbl{tb}}.clone().Tables[0]
			c.Name = strings.ToUpper(tb.Name)
			for i := range c.Idx {
				c.Idx[i].Name = strings.ToUpper(c.Idx[i].Name)
			}
			for i := range c.FKs {
				c.FKs[i].Name = strings.ToUpper(c.FKs[i].Name)
			}
			for i := range c.Chk {
				c.Chk[i].Name = strings.ToUpper(c.Chk[i].Name)
			}
			tw.Tables = append(tw.Tables, c)
		}
		changes, err := d.diff.SchemaDiff(schema.New(d.schema), build(d, tw, nil))
		if err != nil {
			return err
		}
		plan, err := d.plan.PlanChanges(context.Background(), "p", changes)
		if err != nil {
			return err
		}
		o.out = []byte(planText(plan))
		return nil
	}}
	return o
}

// opClassOp marshals and plans a PostgreSQL table whose index parts name their operator classes
// explicitly; whether a class is the default one (and is therefore left out) is looked up in a
// table the package builds on first use.
func opClassOp(a dsch) *op {
	d := dialects[2]
	o := &op{name: "pg-opclass"}
	o.steps = []func() error{func() error {
		s := schema.New(d.schema)
		for _, tb := range a.Tables {
			t := schema.NewTable(tb.Name).AddColumns(
				schema.NewColumn("id").SetType(d.intT()),
				schema.NewColumn("c").SetType(&schema.StringType{T: "text"}))
			id, _ := t.Column("id")
			c, _ := t.Column("c")
			t.AddIndexes(
				schema.NewIndex(tb.Name+"_c").AddParts(&schema.IndexPart{C: c, Attrs: []schema.Attr{&postgres.IndexOpClass{Name: "text_ops"}}}),
				schema.NewIndex(tb.Name+"_p").AddParts(&schema.IndexPart{C: c, Attrs: []schema.Attr{&postgres.IndexOpClass{Name: "text_pattern_ops"}}}, &schema.IndexPart{C: id, SeqNo: 1, Attrs: []schema.Attr{&postgres.IndexOpClass{Name: "int4_ops"}}}))
			s.AddTables(t)
		}
		schema.NewRealm(s)
		doc, err := d.marshal(s)
		if err != nil {
			return err
		}
		changes, err := d.diff.SchemaDiff(schema.New(d.schema), s)
		if err != nil {
			return err
		}
		plan, err := d.plan.PlanChanges(context.Background(), "p", changes)
		if err != nil {
			return err
		}
		o.out = append(doc, []byte("--plan--\n"+planText(plan))...)
		return nil
	}}
	return o
}

// A block type that declares only its name: every attribute and child block of it is kept as
// "remaining" content (schemahcl.DefaultExtension), the way driver-specific attributes are.
type remBlock struct {
	Name string `spec:",name"`
	schemahcl.DefaultExtension
}

type remDoc struct {
	Blocks []*remBlock `spec:"widget"`
}

// remainOp evaluates a document whose blocks carry attributes and child blocks their Go type does
// not declare and marshals what was read: the document names the same things in the same order.
func remainOp(a dsch) *op {
	o := &op{name: "hcl-remaining-attributes"}
	o.steps = []func() error{func() error {
		var b strings.Builder
		for _, tb := range a.Tables {
			fmt.Fprintf(&b, "widget %q {\n", tb.Name)
			for _, c := range tb.Cols {
				fmt.Fprintf(&b, "  %s = %q\n", c.Name, c.Kind)
			}
			for _, ix := range tb.Idx {
				fmt.Fprintf(&b, "  part_%s %q {\n    unique = %v\n  }\n", ix.Cols[0], ix.Name, ix.Unique)
			}
			b.WriteString("}\n")
		}
		var doc remDoc
		if err := schemahcl.New().EvalBytes([]byte(b.String()), &doc, nil); err != nil {
			return fmt.Errorf("eval: %w\n%s", err, b.String())
		}
		out, err := schemahcl.Marshal.MarshalSpec(&doc)
		if err != nil {
			return err
		}
		o.out = out
		return nil
	}}
	return o
}

// charsetTables: the current state of a table carries a charset and its collation, the desired
// state names the charset only ("whatever its default collation is").
func charsetTables(name, collation string) (from, to *schema.Schema) {
	from = schema.New("app").AddTables(schema.NewTable(name).AddColumns(schema.NewIntColumn("id", "int")).SetCharset("utf8mb4").SetCollation(collation))
	to = schema.New("app").AddTables(schema.NewTable(name).AddColumns(schema.NewIntColumn("id", "int")).SetCharset("utf8mb4"))
	return from, to
}

// charsetPlanOp plans that change with the connection-less MySQL differ and planner (MySQL 8
// defaults: nothing to do).
func charsetPlanOp(a dsch) *op {
	d := dialects[1]
	o := &op{name: "mysql-charset-default-plan"}
	o.steps = []func() error{func() error {
		var b strings.Builder
		for _, tb := range a.Tables {
			from, to := charsetTables(tb.Name, "utf8mb4_0900_ai_ci")
			changes, err := d.diff.SchemaDiff(from, to)
			if err != nil {
				return err
			}
			fmt.Fprintf(&b, "%s: %d changes\n", tb.Name, len(changes))
			if len(changes) > 0 {
				plan, err := d.plan.PlanChanges(context.Background(), "p", changes)
				if err != nil {
					return err
				}
				b.WriteString(planText(plan))
			}
		}
		o.out = []byte(b.String())
		return nil
	}}
	return o
}

// connectedElsewhereOp is unrelated work in the same process: a driver opened on another MySQL
// server (5.7, other charset defaults; see fakesql.go) diffs tables of its own.
func connectedElsewhereOp(a dsch) *op {
	o := &op{name: "mysql-connected-to-another-server"}
	o.steps = []func() error{func() error {
		db, err := sql.Open("detsim-fake-mysql", "")
		if err != nil {
			return err
		}
		defer db.Close()
		drv, err := mysql.Open(db)
		if err != nil {
			return err
		}
		var b strings.Builder
		for _, tb := range a.Tables {
			from, to := charsetTables("other_"+tb.Name, "utf8mb4_general_ci")
			changes, err := drv.SchemaDiff(from, to)
			if err != nil {
				return err
			}
			fmt.Fprintf(&b, "%s: %d changes\n", tb.Name, len(changes))
		}
		o.out = []byte(b.String())
		return nil
	}}
	return o
}

var errReplan = errors.New("planning the same change set twice gives different statements")

func planText(p *migrate.Plan) string {
	var b strings.Builder
	for _, c := range p.Changes {
		b.WriteString(c.Cmd)
		b.WriteString(";\n")
	}
	return b.String()
}

func hclOp(d dialect, a dsch) *op {
	o := &op{name: "hcl/" + d.name}
	var first []byte
	o.steps = []func() error{
		func() (err error) {
			first, err = d.marshal(build(d, a, nil))
			return err
		},
		func() error {
			// Evaluate the document and marshal the result again: exercises the evaluator's maps.
			var s schema.Schema
			if err := d.eval(first, &s, nil); err != nil {
				return fmt.Errorf("eval: %w\n%s", err, first)
			}
			second, err := d.marshal(&s)
			if err != nil {
				return err
			}
			o.out = append(append(first, []byte("--again--\n")...), second...)
			return nil
		},
	}
	return o
}

// splitBlocks cuts a marshalled HCL document into its top-level blocks.
func splitBlocks(doc string) []string {
	var out []string
	var cur []string
	for _, l := range strings.Split(doc, "\n") {
		cur = append(cur, l)
		if l == "}" {
			out = append(out, strings.Join(cur, "\n")+"\n")
			cur = nil
		}
	}
	return out
}

// hclFilesOp evaluates the schema from several HCL files that share one base name in different
// directories (the way a project split by component looks) and marshals the result.
func hclFilesOp(d dialect, a dsch) *op {
	o := &op{name: "hcl-files/" + d.name}
	parser := hclparse.NewParser()
	o.steps = []func() error{
		func() error {
			doc, err := d.marshal(build(d, a, nil))
			if err != nil {
				return err
			}
			for i, b := range splitBlocks(string(doc)) {
				name := fmt.Sprintf("/project/c%02d/schema.hcl", i)
				if _, diag := parser.ParseHCL([]byte(b), name); diag.HasErrors() {
					return fmt.Errorf("parse %s: %s", name, diag.Error())
				}
			}
			// Shared values live in files of their own; one of them builds on the other.
			for name, body := range map[string]string{
				"/project/00_base.hcl":    "locals {\n  base = 7\n}\n",
				"/project/zz_derived.hcl": "locals {\n  derived = local.base\n}\n",
			} {
				if _, diag := parser.ParseHCL([]byte(body), name); diag.HasErrors() {
					return fmt.Errorf("parse %s: %s", name, diag.Error())
				}
			}
			return nil
		},
		func() error {
			var r schema.Realm
			if err := d.evalP(parser, &r, nil); err != nil {
				return fmt.Errorf("eval files: %w", err)
			}
			out, err := d.marshal(&r)
			if err != nil {
				return err
			}
			o.out = out
			return nil
		},
	}
	return o
}

// richDoc is a document that uses what a multi-tenant project uses: input variables, locals,
// for_each, two schemas with a table of the same name in both (qualified references) and, for
// PostgreSQL, an enum; the locals read one another up to three levels deep (an object inside an
// object of another local), so that only the dependency edges make their evaluation order safe. It drives the evaluator's variable / reference / block-registry maps.
const richDoc = `
variable "tenants" {
  type    = list(string)
  default = ["a", "b", "c"]
}
variable "size" {
  type    = number
  default = 10
}
locals {
  prefix = "p"
  cfg    = { db = { width = 7, name = "n" }, audit = { who = "who" } }
  width  = local.cfg.db.width
  limits = { w = local.width, n = local.cfg.db.name }
  who    = local.cfg.audit.who
  deep   = local.limits.w + local.cfg.db.width
}
schema "s1" {}
schema "s2" {}
ENUM
table "s1" "users" {
  schema = schema.s1
  column "id" {
    type = int
  }
  column "st" {
    type = STTYPE
  }
  column "w" {
    type = varchar(local.width)
  }
  primary_key {
    columns = [column.id]
  }
  index "users_w" {
    columns = [column.w]
  }
}
table "s2" "users" {
  schema = schema.s2
  column "id" {
    type = int
  }
  column "owner" {
    type = int
  }
  primary_key {
    columns = [column.id]
  }
  foreign_key "owner_fk" {
    columns     = [column.owner]
    ref_columns = [table.s1.users.column.id]
  }
}
table "tenant" {
  for_each = toset(var.tenants)
  schema   = schema.s2
  column "id" {
    type = int
  }
  column "v" {
    type = varchar(var.size)
  }
}
table "audit" {
  schema = schema.s1
  column "id" {
    type = int
  }
  column "who" {
    type = int
  }
  column "d" {
    type = varchar(local.deep)
  }
  foreign_key "who_fk" {
    columns     = [column.who]
    ref_columns = [table.s2.users.column.id]
  }
}
`

func richOp(d dialect, size int) *op {
	o := &op{name: "hcl-rich/" + d.name}
	doc := richDoc
	if d.name == "postgres" {
		doc = strings.Replace(doc, "ENUM", "enum \"status\" {\n  schema = schema.s1\n  values = [\"on\", \"off\"]\n}", 1)
		doc = strings.Replace(doc, "STTYPE", "enum.status", 1)
	} else {
		doc = strings.Replace(doc, "ENUM", "", 1)
		doc = strings.Replace(doc, "STTYPE", "int", 1)
	}
	o.steps = []func() error{func() error {
		var r schema.Realm
		if err := d.eval([]byte(doc), &r, map[string]cty.Value{"size": cty.NumberIntVal(int64(size))}); err != nil {
			return fmt.Errorf("eval rich document: %w", err)
		}
		var b strings.Builder
		for _, s := range r.Schemas {
			fmt.Fprintf(&b, "schema %s objects=%d\n", s.Name, len(s.Objects))
			for _, tb := range s.Tables {
				fmt.Fprintf(&b, " table %s\n", tb.Name)
				for _, c := range tb.Columns {
					fmt.Fprintf(&b, "  column %s %T %s\n", c.Name, c.Type.Type, c.Type.Raw)
				}
				for _, ix := range tb.Indexes {
					fmt.Fprintf(&b, "  index %s %d\n", ix.Name, len(ix.Parts))
				}
				for _, fk := range tb.ForeignKeys {
					fmt.Fprintf(&b, "  fk %s -> %s.%s\n", fk.Symbol, fk.RefTable.Schema.Name, fk.RefTable.Name)
				}
			}
		}
		o.out = []byte(b.String())
		return nil
	}}
	return o
}

// scopeOp plans tables of several schemas with a schema-scoped plan: the planner must refuse, and
// the refusal (which lists the schemas it found, collected in a map) must read the same every time.
func scopeOp(d dialect, a dsch) *op {
	o := &op{name: "scope-error/" + d.name}
	o.steps = []func() error{func() error {
		var changes []schema.Change
		for i, tb := range a.Tables {
			s := schema.New(fmt.Sprintf("tenant_%c", 'a'+rune(len(a.Tables)-i)))
			t := schema.NewTable(tb.Name).AddColumns(schema.NewColumn("id").SetType(d.intT()))
			s.AddTables(t)
			changes = append(changes, &schema.AddTable{T: t})
		}
		q := ""
		_, err := d.plan.PlanChanges(context.Background(), "p", changes, func(o *migrate.PlanOptions) { o.SchemaQualifier = &q })
		if err == nil {
			return fmt.Errorf("a schema-scoped plan over %d schemas was accepted", len(a.Tables))
		}
		o.out = []byte(err.Error())
		return nil
	}}
	return o
}

// realmOp marshals a realm of several schemas whose tables share names across schemas (so that
// their HCL blocks need a schema qualifier) and whose tables may be named like one of the schemas;
// the document is then evaluated and marshalled again.
func realmOp(d dialect, pairs [][2]string) *op {
	o := &op{name: "hcl-realm/" + d.name}
	var first []byte
	o.steps = []func() error{
		func() (err error) {
			r := schema.NewRealm()
			byName := map[string]*schema.Schema{}
			for _, p := range pairs {
				sc, ok := byName[p[0]]
				if !ok {
					sc = schema.New(p[0])
					byName[p[0]] = sc
					r.AddSchemas(sc)
				}
				sc.AddTables(schema.NewTable(p[1]).AddColumns(schema.NewColumn("id").SetType(d.intT())))
			}
			first, err = d.marshal(r)
			return err
		},
		func() error {
			var r schema.Realm
			if err := d.eval(first, &r, nil); err != nil {
				return fmt.Errorf("eval: %w\n%s", err, first)
			}
			second, err := d.marshal(&r)
			if err != nil {
				return err
			}
			o.out = append(append(first, []byte("--again--\n")...), second...)
			return nil
		},
	}
	return o
}

func sumOp(files map[string]string) *op {
	o := &op{name: "dir-sum"}
	dir := &migrate.MemDir{}
	o.steps = []func() error{
		func() error {
			// Written in map order: MemDir stores files in a map itself.
			for n, c := range files {
				if err := dir.WriteFile(n, []byte(c)); err != nil {
					return err
				}
			}
			return nil
		},
		func() error {
			hf, err := dir.Checksum()
			if err != nil {
				return err
			}
			b, err := hf.MarshalText()
			if err != nil {
				return err
			}
			fs, err := dir.Files()
			if err != nil {
				return err
			}
			var names []string
			for _, f := range fs {
				names = append(names, f.Name())
			}
			o.out = append(b, []byte(strings.Join(names, ","))...)
			return nil
		},
	}
	return o
}

func (o *op) run() error {
	for _, s := range o.steps {
		if err := s(); err != nil {
			return err
		}
	}
	return nil
}

func digest(b []byte) string {
	h := sha256.Sum256(b)
	return hex.EncodeToString(h[:])[:16]
}

type scenario struct {
	a, b  dsch
	files map[string]string
	realm [][2]string // (schema, table) pairs of a multi-schema realm
}

func genScenario(t *simkit.Tape) scenario {
	seq := 0
	a := genSchema(t, &seq)
	sc := scenario{a: a, b: edit(t, &seq, a), files: map[string]string{}}
	version := 0
	for i, n := 0, t.Range("dir-files", 2, 6); i < n; i++ {
		// Some files share their version prefix (two branches merged on the same day): only the
		// rest of the name orders them.
		if i == 0 || !t.Chance("same-version-as-previous", 1, 3) {
			version = t.Draw("version", 9999)
		}
		sc.files[fmt.Sprintf("2024010100%04d_%c%d.sql", version, 'a'+rune(t.Draw("name-letter", 6)), i)] = fmt.Sprintf("CREATE TABLE x%d (id int);\n", i)
	}
	// A realm of two or three schemas; table names come from a small pool that includes the schema
	// names, so that names repeat across schemas and a table may be named like a schema.
	pool := []string{"users", "orders", "s1", "s2", "s3"}
	seen := map[[2]string]bool{}
	for i, n := 0, t.Range("realm-tables", 3, 7); i < n; i++ {
		p := [2]string{fmt.Sprintf("s%d", 1+t.Draw("realm-schema", 3)), pool[t.Draw("realm-table", len(pool))]}
		if !seen[p] {
			seen[p] = true
			sc.realm = append(sc.realm, p)
		}
	}
	return sc
}

func (sc scenario) ops(perm func(int) []int) []*op {
	var out []*op
	for _, d := range dialects {
		out = append(out, planOp(d, sc.a, sc.b, perm), hclOp(d, sc.a), hclFilesOp(d, sc.a))
	}
	out = append(out, richOp(dialects[1], 10+len(sc.files)), richOp(dialects[2], 10+len(sc.files)))
	out = append(out, scopeOp(dialects[1], sc.a), scopeOp(dialects[2], sc.a))
	out = append(out, realmOp(dialects[1], sc.realm), realmOp(dialects[2], sc.realm))
	out = append(out, caseTwinOp(dialects[1], sc.a), caseTwinOp(dialects[2], sc.a))
	out = append(out, opClassOp(sc.a), remainOp(sc.a), charsetPlanOp(sc.a), connectedElsewhereOp(sc.a))
	return append(out, sumOp(sc.files))
}

// canonStmt is a statement modulo the order of its clauses (column and constraint clauses of
// CREATE TABLE, actions of ALTER TABLE), taken as the sorted bag of its tokens: inside one statement
// Atlas lists clauses in declaration order, which is the same freedom as the order of independent
// statements. The resulting schema is compared separately.
func canonStmt(st string) string {
	toks := strings.FieldsFunc(st, func(r rune) bool { return r == ' ' || r == ',' || r == '(' || r == ')' || r == '\n' || r == '\t' })
	sort.Strings(toks)
	return strings.Join(toks, " ")
}

func multiset(out []byte) string {
	s := string(out)
	if i := strings.Index(s, "--file--"); i >= 0 {
		s = s[:i]
	}
	lines := strings.Split(s, ";\n")
	for i := range lines {
		lines[i] = canonStmt(lines[i])
	}
	sort.Strings(lines)
	return strings.Join(lines, ";\n")
}

// C20 — same inputs give byte-identical plans, HCL, files and sums.
func C20(r *simkit.Run) {
	const prop = "C20"
	t := r.T
	sc := genScenario(t)
	setSeed(0)
	resetHits()
	base := sc.ops(nil)
	for _, o := range base {
		if err := o.run(); err != nil {
			if errors.Is(err, errReplan) {
				r.Fail(prop, "repeat", "replanning-same-changes-differs/"+o.name, "%s: %v", o.name, err)
				return
			}
			simkit.Harnessf("operation %s fails on a generated scenario: %v", o.name, err)
		}
	}
	var desc []string
	for _, tb := range sc.a.Tables {
		desc = append(desc, fmt.Sprintf("%s(%dc,%di,%df,%dk)", tb.Name, len(tb.Cols), len(tb.Idx), len(tb.FKs), len(tb.Chk)))
	}
	r.Sample("schema A: %s; B = A after edits (%d tables); directory of %d files; %d operations", strings.Join(desc, " "), len(sc.b.Tables), len(sc.files), len(base))
	for _, o := range base {
		r.Logf("base %s %s", o.name, digest(o.out))
	}
	r.Nontrivial()
	// (1) Map order: the same operations under other iteration orders.
	for i, n := 0, t.Range("map-seeds", 2, 4); i < n && !r.Failed(); i++ {
		seed := uint64(1 + t.Draw("map-seed", 1<<30))
		setSeed(seed)
		r.Fired("map-order-permuted")
		r.Step()
		for k, o := range sc.ops(nil) {
			if err := o.run(); err != nil {
				r.Fail(prop, "map-order", "operation-fails-under-map-order/"+o.name, "%s fails under map seed %d: %v", o.name, seed, err)
				break
			}
			if string(o.out) != string(base[k].out) {
				r.Fail(prop, "map-order", "output-depends-on-map-order/"+o.name, "%s gives different bytes under map iteration seed %d:\n--- canonical\n%s\n--- permuted\n%s", o.name, seed, firstDiff(base[k].out, o.out), "")
				break
			}
		}
		r.Logf("map seed #%d ok", i)
	}
	setSeed(0)
	for site, n := range hits() {
		if n > 0 {
			r.Probe("site:" + site)
		}
	}
	if r.Failed() {
		return
	}
	// (2) Declaration order: same objects listed in another order.
	permSeed := simkit.NewSplitMix64(uint64(1 + t.Draw("perm-seed", 1<<30)))
	perm := func(n int) []int {
		p := make([]int, n)
		for i := range p {
			p[i] = i
		}
		for i := n - 1; i > 0; i-- {
			j := int(permSeed.Next() % uint64(i+1))
			p[i], p[j] = p[j], p[i]
		}
		return p
	}
	r.Step()
	r.Fired("declaration-order-permuted")
	for k, o := range sc.ops(perm) {
		if !strings.HasPrefix(o.name, "plan+format/") {
			continue
		}
		if err := o.run(); err != nil {
			r.Fail(prop, "declaration-order", "operation-fails-under-declaration-order/"+o.name, "%s fails when objects are listed in another order: %v", o.name, err)
			return
		}
		if multiset(o.out) != multiset(base[k].out) {
			r.Fail(prop, "declaration-order", "statements-depend-on-declaration-order/"+o.name, "%s: listing the same objects in another order changes the content of the planned statements:\n%s", o.name, firstDiff([]byte(multiset(base[k].out)), []byte(multiset(o.out))))
			return
		}
		if string(o.out) != string(base[k].out) {
			r.Probe("statement-order-follows-declaration-order")
		}
	}
	// ... and never the resulting schema: on a real SQLite engine, creating A and migrating it to B
	// gives the same catalog whichever order the objects were listed in.
	if t.Chance("apply-on-sqlite", 1, 3) {
		c1, err1 := sqliteResult(sc, nil)
		c2, err2 := sqliteResult(sc, perm)
		r.Probe("resulting-schema-compared")
		if err1 != nil || err2 != nil {
			r.Fail(prop, "declaration-order", "plan-not-executable-on-sqlite", "executing the plans on SQLite failed: declared order: %v; permuted order: %v", err1, err2)
			return
		}
		if d := schemasim.DiffCatalogs(c2, c1); d != "" {
			r.Fail(prop, "declaration-order", "resulting-schema-depends-on-declaration-order", "listing the same objects in another order gives a different database (live = permuted order, want = declared order):\n%s", d)
			return
		}
	}
	// (3) Interleaving: independent operations cut at call boundaries, scheduled by the tape.
	r.Step()
	ops := sc.ops(nil)
	pc := make([]int, len(ops))
	for {
		var runnable []int
		for i, o := range ops {
			if pc[i] < len(o.steps) {
				runnable = append(runnable, i)
			}
		}
		if len(runnable) == 0 {
			break
		}
		i := runnable[t.Draw("sched", len(runnable))]
		if err := ops[i].steps[pc[i]](); err != nil {
			r.Fail(prop, "interleaving", "operation-fails-when-interleaved/"+ops[i].name, "%s fails when interleaved with unrelated operations: %v", ops[i].name, err)
			return
		}
		pc[i]++
	}
	r.Fired("operations-interleaved")
	for k, o := range ops {
		if string(o.out) != string(base[k].out) {
			r.Fail(prop, "interleaving", "output-depends-on-interleaving/"+o.name, "%s gives different bytes when its calls are interleaved with unrelated operations:\n%s", o.name, firstDiff(base[k].out, o.out))
			return
		}
	}
	// (4) A second run in the same process.
	for k, o := range sc.ops(nil) {
		if err := o.run(); err != nil || string(o.out) != string(base[k].out) {
			r.Fail(prop, "repeat", "output-differs-on-repeat/"+o.name, "%s gives different bytes when repeated in the same process (err=%v)", o.name, err)
			return
		}
	}
}

func firstDiff(a, b []byte) string {
	la, lb := strings.Split(string(a), "\n"), strings.Split(string(b), "\n")
	for i := 0; i < len(la) || i < len(lb); i++ {
		x, y := "", ""
		if i < len(la) {
			x = la[i]
		}
		if i < len(lb) {
			y = lb[i]
		}
		if x != y {
			return fmt.Sprintf("line %d:\n  - %s\n  + %s", i+1, x, y)
		}
	}
	return "(identical)"
}

// C20Procs — the same inputs in fresh processes (real map randomisation at the unseamed sites,
// fresh package state).
func C20Procs(r *simkit.Run) {
	const prop = "C20"
	t := r.T
	seed := uint64(1 + t.Draw("scenario-seed", 1<<30))
	self, err := os.Executable()
	if err != nil {
		simkit.Harnessf("executable: %v", err)
	}
	want := ProcDigest(seed, 0)
	r.Logf("in-process %s", want)
	r.Sample("scenario seed %d: all operations run in this process and in 3 fresh processes; combined digest %s", seed, want)
	r.Nontrivial()
	for i := 0; i < 3; i++ {
		// Each fresh process also runs under its own map-iteration order.
		out, err := exec.Command(self, "detop", fmt.Sprint(seed), fmt.Sprint(1+t.Draw("child-map-seed", 1<<30))).Output()
		if err != nil {
			simkit.Harnessf("child process: %v", err)
		}
		r.Step()
		r.Fired("fresh-process")
		got := strings.TrimSpace(string(out))
		if got != want {
			r.Fail(prop, "across-processes", "output-differs-across-processes", "the same operations give digest %s in a fresh process, %s in this one", got, want)
			return
		}
	}
}

// ProcDigest runs every operation of the scenario of a seed and returns one digest.
func ProcDigest(seed, mapSeed uint64) string {
	t := simkit.NewTape(seed)
	sc := genScenario(t)
	setSeed(mapSeed)
	defer setSeed(0)
	var all []byte
	for _, o := range sc.ops(nil) {
		if err := o.run(); err != nil {
			return "error:" + err.Error()
		}
		all = append(all, o.out...)
	}
	return digest(all)
}

// sqliteResult creates schema A on an empty in-memory SQLite database with Atlas' plan, migrates
// it to B with the plan under test and returns the observer catalog.
func sqliteResult(sc scenario, perm func(int) []int) (map[string]string, error) {
	d := dialects[0]
	db, err := sql.Open("sqlite3", ":memory:")
	if err != nil {
		return nil, err
	}
	defer db.Close()
	db.SetMaxOpenConns(1)
	steps := [][2]*schema.Schema{{schema.New(d.schema), build(d, sc.a, perm)}, {build(d, sc.a, perm), build(d, sc.b, perm)}}
	for _, st := range steps {
		changes, err := d.diff.SchemaDiff(st[0], st[1])
		if err != nil {
			return nil, err
		}
		if len(changes) == 0 {
			continue
		}
		plan, err := d.plan.PlanChanges(context.Background(), "p", changes)
		if err != nil {
			return nil, err
		}
		for _, c := range plan.Changes {
			if _, err := db.Exec(c.Cmd, c.Args...); err != nil {
				return nil, fmt.Errorf("%w: %s", err, c.Cmd)
			}
		}
	}
	return schemasim.ReadCatalog(db)
}
