//go:build !seamed

package detsim

// Unseamed build (the race-detector probe runs the repository's code as it is).
const Seamed = false

func setSeed(uint64)       {}
func hits() map[string]int { return nil }
func resetHits()           {}
