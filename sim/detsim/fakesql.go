package detsim

import (
	"database/sql"
	"database/sql/driver"
	"errors"
	"io"
	"strings"
)

// A database/sql driver that stands for "another MySQL server the process is also connected to":
// it answers the system-variables query of mysql.Open (version 5.7.30, where the default collation of
// utf8mb4 is utf8mb4_general_ci) and the INFORMATION_SCHEMA.CHARACTER_SETS query of the differ, and
// refuses everything else. No network, no state.
type fakeMySQL struct{}

func init() { sql.Register("detsim-fake-mysql", fakeMySQL{}) }

func (fakeMySQL) Open(string) (driver.Conn, error) { return fakeConn{}, nil }

type fakeConn struct{}

func (fakeConn) Prepare(q string) (driver.Stmt, error) { return fakeStmt{q}, nil }
func (fakeConn) Close() error                          { return nil }
func (fakeConn) Begin() (driver.Tx, error)             { return nil, errors.New("fake mysql: no transactions") }

type fakeStmt struct{ q string }

func (fakeStmt) Close() error  { return nil }
func (fakeStmt) NumInput() int { return -1 }
func (fakeStmt) Exec([]driver.Value) (driver.Result, error) {
	return nil, errors.New("fake mysql: read only")
}
func (s fakeStmt) Query([]driver.Value) (driver.Rows, error) {
	switch {
	case strings.HasPrefix(s.q, "SELECT @@version"):
		return &fakeRows{cols: []string{"v", "collate", "charset", "lcnames"}, rows: [][]driver.Value{{"5.7.30", "utf8mb4_general_ci", "utf8mb4", int64(0)}}}, nil
	case strings.Contains(s.q, "INFORMATION_SCHEMA.CHARACTER_SETS"):
		return &fakeRows{cols: []string{"CHARACTER_SET_NAME", "DEFAULT_COLLATE_NAME"}, rows: [][]driver.Value{{"utf8mb4", "utf8mb4_general_ci"}}}, nil
	}
	return nil, errors.New("fake mysql: unknown query")
}

type fakeRows struct {
	cols []string
	rows [][]driver.Value
	i    int
}

func (r *fakeRows) Columns() []string { return r.cols }
func (r *fakeRows) Close() error      { return nil }
func (r *fakeRows) Next(dest []driver.Value) error {
	if r.i >= len(r.rows) {
		return io.EOF
	}
	copy(dest, r.rows[r.i])
	r.i++
	return nil
}
