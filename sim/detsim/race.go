package detsim

import (
	"fmt"
	"os"
	"os/exec"
	"strings"
	"sync"

	"verif/sim/simkit"
)

// RaceChild is run inside the binary built with -race from the unmodified repository code: the
// operations of one scenario run all at once on real goroutines (three rounds; the first round is
// the first use of everything the packages build lazily), then one after the other. The concurrent
// outputs must be the sequential ones; the race detector watches.
func RaceChild(seed uint64) int {
	t := simkit.NewTape(seed)
	sc := genScenario(t)
	var rounds [][]*op
	for round := 0; round < 3; round++ {
		// Two instances of every operation: the same dialect's code runs on several goroutines at once.
		ops := append(sc.ops(nil), sc.ops(nil)...)
		errs := make([]error, len(ops))
		var wg sync.WaitGroup
		for i := range ops {
			wg.Add(1)
			go func(i int) {
				defer wg.Done()
				errs[i] = ops[i].run()
			}(i)
		}
		wg.Wait()
		for i, o := range ops {
			if errs[i] != nil {
				fmt.Printf("mismatch: %s fails when run concurrently: %v\n", o.name, errs[i])
				return 3
			}
		}
		rounds = append(rounds, ops)
	}
	base := sc.ops(nil)
	for _, o := range base {
		if err := o.run(); err != nil {
			fmt.Printf("error: %s: %v\n", o.name, err)
			return 4
		}
	}
	for _, ops := range rounds {
		for i, o := range ops {
			if string(o.out) != string(base[i%len(base)].out) {
				fmt.Printf("mismatch: %s gives different bytes when run concurrently with unrelated operations\n", o.name)
				return 3
			}
		}
	}
	fmt.Println("ok")
	return 0
}

// C20Race — probe, not oracle of record: the same operations on real goroutines under the race
// detector. A race report is a violation (the detector has no false positives), but goroutine
// interleaving inside CPU-only code is not a schedule the simulator owns, so the replay re-runs
// the operation set under -race rather than a recorded schedule.
func C20Race(r *simkit.Run) {
	const prop = "C20"
	bin := os.Getenv("VERIF_RACE_BIN")
	if bin == "" {
		simkit.Harnessf("C20 race probe needs the -race binary (VERIF_RACE_BIN)")
	}
	seed := uint64(1 + r.T.Draw("scenario-seed", 1<<30))
	cmd := exec.Command(bin, "racechild", fmt.Sprint(seed))
	cmd.Env = append(os.Environ(), "GORACE=halt_on_error=1 exitcode=66")
	out, err := cmd.CombinedOutput()
	r.Step()
	r.Nontrivial()
	r.Fired("operations-on-real-goroutines-under-race-detector")
	text := string(out)
	r.Logf("race probe seed=%d", seed)
	r.Sample("scenario seed %d: all operations concurrently on goroutines, 3 rounds, under the race detector -> %s", seed, firstLineOf(text))
	switch {
	case strings.Contains(text, "WARNING: DATA RACE"):
		r.Fail(prop, "data-race", "data-race", "the race detector reports a data race when independent operations run concurrently:\n%s", cut(text, 3000))
	case strings.Contains(text, "mismatch:"):
		r.Fail(prop, "concurrency", "output-depends-on-concurrency", "%s", cut(text, 1000))
	case err != nil:
		simkit.Harnessf("race child: %v: %s", err, cut(text, 500))
	}
}

func firstLineOf(s string) string {
	if i := strings.IndexByte(s, '\n'); i >= 0 {
		return s[:i]
	}
	return s
}

func cut(s string, n int) string {
	if len(s) > n {
		return s[:n]
	}
	return s
}
