// Package observe is the independent observer: it reads SQLite files with
// mattn/go-sqlite3 directly and never goes through Atlas code.
package observe

import (
	"crypto/sha256"
	"database/sql"
	"encoding/hex"
	"fmt"
	"os"
	"sort"
	"strings"

	_ "github.com/mattn/go-sqlite3"
)

// RevTable is the name of Atlas' revision table.
const RevTable = "atlas_schema_revisions"

// Rev is one revision row without the label columns (executed_at, execution_time, operator_version).
type Rev struct {
	Version, Desc string
	Type          int
	Applied       int
	Total         int
	Error         string
	ErrorStmt     string
	Hash          string
	Partial       string
	// Stamp holds the label columns executed_at and operator_version as stored. It is a wall-clock
	// reading: compared between two observations of one run, never printed, never part of a digest.
	Stamp string
}

// String renders the revision.
func (r Rev) String() string {
	e := ""
	if r.Error != "" {
		e = " err"
	}
	return fmt.Sprintf("%s t%d %d/%d%s ph=%d", strings.TrimLeft(r.Version, "0"), r.Type, r.Applied, r.Total, e, r.PartialCount())
}

// PartialCount returns the number of partial hashes stored.
func (r Rev) PartialCount() int {
	p := strings.TrimSpace(r.Partial)
	if p == "" || p == "null" || p == "[]" {
		return 0
	}
	return strings.Count(p, "h1:")
}

// Dump is the logical content of a database file.
type Dump struct {
	Exists    bool
	Master    []string            // type|name|tbl_name|sql of user objects (revision table excluded), sorted
	Rows      map[string][]string // user table -> rows (quote()d columns joined by '|'), sorted
	Revs      []Rev               // revision rows ordered by version
	HasRevTbl bool
}

// Open opens a database file read-write (a crashed writer's hot journal is rolled back by
// the next client that opens the file, which is what any user of the file would see).
func Open(path string) (*sql.DB, error) {
	db, err := sql.Open("sqlite3", "file:"+path+"?_busy_timeout=10000")
	if err != nil {
		return nil, err
	}
	db.SetMaxOpenConns(1)
	return db, nil
}

// Read dumps the database at path. A missing file is an empty database.
func Read(path string) (*Dump, error) {
	d := &Dump{Rows: map[string][]string{}}
	if _, err := os.Stat(path); err != nil {
		return d, nil
	}
	d.Exists = true
	db, err := Open(path)
	if err != nil {
		return nil, err
	}
	defer db.Close()
	return d, d.read(db)
}

// ReadDB dumps through an already open handle.
func ReadDB(db *sql.DB) (*Dump, error) {
	d := &Dump{Rows: map[string][]string{}, Exists: true}
	return d, d.read(db)
}

func (d *Dump) read(db *sql.DB) error {
	rows, err := db.Query("SELECT type, name, tbl_name, coalesce(sql,'') FROM sqlite_master ORDER BY type, name")
	if err != nil {
		return err
	}
	var tables []string
	for rows.Next() {
		var typ, name, tbl, sqls string
		if err := rows.Scan(&typ, &name, &tbl, &sqls); err != nil {
			rows.Close()
			return err
		}
		if tbl == RevTable {
			if typ == "table" {
				d.HasRevTbl = true
			}
			continue
		}
		d.Master = append(d.Master, typ+"|"+name+"|"+tbl+"|"+sqls)
		if typ == "table" && !strings.HasPrefix(name, "sqlite_") {
			tables = append(tables, name)
		}
	}
	rows.Close()
	if err := rows.Err(); err != nil {
		return err
	}
	sort.Strings(d.Master)
	for _, t := range tables {
		rs, err := TableRows(db, t)
		if err != nil {
			return err
		}
		d.Rows[t] = rs
	}
	if d.HasRevTbl {
		rows, err := db.Query("SELECT version, description, type, applied, total, coalesce(error,''), coalesce(error_stmt,''), hash, coalesce(partial_hashes,''), coalesce(cast(executed_at AS text),'')||'/'||coalesce(operator_version,'') FROM " + RevTable + " ORDER BY version")
		if err != nil {
			return err
		}
		defer rows.Close()
		for rows.Next() {
			var r Rev
			if err := rows.Scan(&r.Version, &r.Desc, &r.Type, &r.Applied, &r.Total, &r.Error, &r.ErrorStmt, &r.Hash, &r.Partial, &r.Stamp); err != nil {
				return err
			}
			d.Revs = append(d.Revs, r)
		}
		return rows.Err()
	}
	return nil
}

// TableRows returns all rows of a table, every column rendered with quote(), sorted.
func TableRows(db *sql.DB, table string) ([]string, error) {
	cols, err := Columns(db, table)
	if err != nil {
		return nil, err
	}
	if len(cols) == 0 {
		return nil, nil
	}
	var sel []string
	for _, c := range cols {
		sel = append(sel, "quote("+QuoteIdent(c)+")")
	}
	rows, err := db.Query("SELECT " + strings.Join(sel, "||'|'||") + " FROM " + QuoteIdent(table))
	if err != nil {
		return nil, fmt.Errorf("rows of %s: %w", table, err)
	}
	defer rows.Close()
	var out []string
	for rows.Next() {
		var s sql.NullString
		if err := rows.Scan(&s); err != nil {
			return nil, err
		}
		out = append(out, s.String)
	}
	sort.Strings(out)
	return out, rows.Err()
}

// Columns lists the visible (non-generated-hidden) columns of a table.
func Columns(db *sql.DB, table string) ([]string, error) {
	rows, err := db.Query("SELECT name FROM pragma_table_xinfo(?) WHERE hidden IN (0,2,3) ORDER BY cid", table)
	if err != nil {
		return nil, err
	}
	defer rows.Close()
	var cols []string
	for rows.Next() {
		var c string
		if err := rows.Scan(&c); err != nil {
			return nil, err
		}
		cols = append(cols, c)
	}
	return cols, rows.Err()
}

// QuoteIdent quotes an identifier for SQLite.
func QuoteIdent(s string) string { return `"` + strings.ReplaceAll(s, `"`, `""`) + `"` }

// UserDigest hashes schema + rows of user objects.
func (d *Dump) UserDigest() string {
	h := sha256.New()
	for _, m := range d.Master {
		fmt.Fprintln(h, m)
	}
	ts := make([]string, 0, len(d.Rows))
	for t := range d.Rows {
		ts = append(ts, t)
	}
	sort.Strings(ts)
	for _, t := range ts {
		fmt.Fprintln(h, "#", t)
		for _, r := range d.Rows[t] {
			fmt.Fprintln(h, r)
		}
	}
	return hex.EncodeToString(h.Sum(nil))[:16]
}

// RevDigest renders the revision history ("no table" and "empty table" are the same history).
func (d *Dump) RevDigest() string {
	var parts []string
	for _, r := range d.Revs {
		parts = append(parts, r.String())
	}
	return strings.Join(parts, ",")
}

// RevFull renders the revisions with every compared column.
func (d *Dump) RevFull() string {
	var parts []string
	for _, r := range d.Revs {
		parts = append(parts, fmt.Sprintf("%s|%s|%d|%d|%d|%s|%s|%s|%s", r.Version, r.Desc, r.Type, r.Applied, r.Total, r.Error, r.ErrorStmt, r.Hash, r.Partial))
	}
	return strings.Join(parts, "\n")
}

// Restamped lists the versions present in both observations whose label columns (executed_at,
// operator_version) differ.
func (d *Dump) Restamped(before *Dump) []string {
	var out []string
	for _, r := range d.Revs {
		if b, ok := before.Rev(r.Version); ok && b.Stamp != r.Stamp {
			out = append(out, r.Version)
		}
	}
	return out
}

// Digest hashes everything that is compared.
func (d *Dump) Digest() string {
	h := sha256.Sum256([]byte(d.UserDigest() + "\n" + d.RevFull()))
	return hex.EncodeToString(h[:])[:16]
}

// Count returns how many rows of table render exactly as row.
func (d *Dump) Count(table string, match func(string) bool) int {
	n := 0
	for _, r := range d.Rows[table] {
		if match(r) {
			n++
		}
	}
	return n
}

// HasTable reports whether a user table exists.
func (d *Dump) HasTable(name string) bool {
	for _, m := range d.Master {
		if strings.HasPrefix(m, "table|"+name+"|") {
			return true
		}
	}
	return false
}

// Rev returns the revision of a version.
func (d *Dump) Rev(version string) (Rev, bool) {
	for _, r := range d.Revs {
		if r.Version == version {
			return r, true
		}
	}
	return Rev{}, false
}
