# Build helpers (sourced). Everything is built from files on disk, offline.
BUILD=${VERIF_BUILD:-$ROOT/.build}
mkdir -p "$BUILD"
# Scratch space for simulated worlds: memory-backed when available, never under /repo or /verif.
if [ -z "${VERIF_SCRATCH:-}" ] && [ -d /dev/shm ] && [ -w /dev/shm ]; then export VERIF_SCRATCH=/dev/shm/verif-scratch; fi
export GOFLAGS=-mod=mod GOPROXY=off
unset GOSUMDB GONOSUMDB GONOSUMCHECK 2>/dev/null || true

# The simulator module links /repo's packages directly (replace ariga.io/atlas => /repo),
# built with the hook guard on.
build_sim() {
  # go.mod says `replace ariga.io/atlas => /repo`; another repository root (VERIF_REPO: a scratch
  # worktree used to try a change without touching /repo) is wired in through a -modfile copy.
  sed "s#=> /repo#=> $REPO#" "$ROOT/sim/go.mod" > "$BUILD/sim.mod"
  sort -u "$REPO/go.sum" "$REPO/cmd/atlas/go.sum" "$ROOT/sim/go.sum" > "$BUILD/sim.sum"
  ( cd "$ROOT/sim" && GOTOOLCHAIN=local go build -modfile="$BUILD/sim.mod" -tags verif -o "$BUILD/verifsim" ./cmd/verifsim ) 2> "$BUILD/sim-build.log"
  local rc=$?
  if [ $rc -ne 0 ]; then
    echo "harness: simulator build failed (see below)" >&2; tail -n 40 "$BUILD/sim-build.log" >&2; return 2
  fi
}

# The real CLI with hooks on. cmd/atlas asks for go1.23.6: GOTOOLCHAIN=auto takes it from
# the module cache like the baseline does; go1.26.8 is the fallback.
build_cli() {
  ( cd "$REPO/cmd/atlas" && env -u GOTOOLCHAIN go build -tags verif -o "$BUILD/atlas-verif" . ) 2> "$BUILD/cli-build.log" && return 0
  ( cd "$REPO/cmd/atlas" && GOTOOLCHAIN=local go1.26.8 build -tags verif -o "$BUILD/atlas-verif" . ) 2>> "$BUILD/cli-build.log" && return 0
  echo "harness: CLI build failed (see below)" >&2; tail -n 40 "$BUILD/cli-build.log" >&2; return 2
}

# C20: the simulator built against a scratch copy of the repository in which the map-range
# sites were rewritten to a seeded order (see maprw). /repo itself is never modified.
build_seamed() {
  local scratch=${VERIF_SCRATCH:-/tmp}/seamed-$$
  rm -rf "$scratch"; mkdir -p "$scratch/atlas" || return 2
  ( cd "$ROOT/maprw" && GOTOOLCHAIN=local go build -o "$BUILD/maprw" . ) 2> "$BUILD/maprw-build.log" || { echo "harness: maprw build failed" >&2; tail -n 20 "$BUILD/maprw-build.log" >&2; rm -rf "$scratch"; return 2; }
  ( cd "$REPO" && rsync -a --exclude '*_test.go' --exclude testdata go.mod go.sum sql schemahcl "$scratch/atlas/" ) || { rm -rf "$scratch"; return 2; }
  ( cd "$scratch/atlas" && GOTOOLCHAIN=local "$BUILD/maprw" "$scratch/atlas" "$BUILD/map-sites.json" ./sql/... ./schemahcl/... ) > "$BUILD/maprw.log" 2>&1 || { echo "harness: map-range rewrite failed" >&2; tail -n 20 "$BUILD/maprw.log" >&2; rm -rf "$scratch"; return 2; }
  sed "s#=> /repo#=> $scratch/atlas#" "$ROOT/sim/go.mod" > "$BUILD/seamed.mod"; sort -u "$REPO/go.sum" "$REPO/cmd/atlas/go.sum" "$ROOT/sim/go.sum" > "$BUILD/seamed.sum"
  ( cd "$ROOT/sim" && GOTOOLCHAIN=local go build -modfile="$BUILD/seamed.mod" -tags "verif seamed" -o "$BUILD/verifsim-seamed" ./cmd/verifsim ) 2> "$BUILD/seamed-build.log"
  local rc=$?
  rm -rf "$scratch"
  if [ $rc -ne 0 ]; then echo "harness: seamed simulator build failed" >&2; tail -n 40 "$BUILD/seamed-build.log" >&2; return 2; fi
  export VERIF_MAP_SITES=$BUILD/map-sites.json
  cat "$BUILD/maprw.log"
}

# C20 race-detector probe (thorough tier): the simulator built with -race from the unmodified repository.
build_race() {
  ( cd "$ROOT/sim" && GOTOOLCHAIN=local go build -race -modfile="$BUILD/sim.mod" -tags verif -o "$BUILD/verifsim-race" ./cmd/verifsim ) 2> "$BUILD/race-build.log" || { echo "harness: -race build failed" >&2; tail -n 30 "$BUILD/race-build.log" >&2; return 2; }
  export VERIF_RACE_BIN=$BUILD/verifsim-race
}
