#!/usr/bin/env bash
# Builds the framework from files on disk only (offline) and warms the Go build cache.
set -u
ROOT=$(cd "$(dirname "${BASH_SOURCE[0]}")" && pwd)
REPO=${VERIF_REPO:-/repo}
. "$ROOT/lib/build.sh"
build_sim || exit 2
build_cli || exit 2
echo "setup ok: $("$BUILD/verifsim" list | tr '\n' ' ')"
