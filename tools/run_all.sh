#!/usr/bin/env bash
# Runs every registered check of a tier and prints one summary line per property.
#   tools/run_all.sh [quick|thorough]
ROOT=$(cd "$(dirname "${BASH_SOURCE[0]}")/.." && pwd)
TIER=${1:-quick}
rc=0
for id in $(python3 -c "import json;print(' '.join(c['property_id'] for c in json.load(open('$ROOT/MANIFEST.json'))['checks']))"); do
  start=$(date +%s)
  out=$("$ROOT/check" "$id" --tier "$TIER" 2>&1); code=$?
  echo "$id exit=$code $(( $(date +%s) - start ))s $(echo "$out" | grep -E '^(OK|VIOLATION|KNOWN-FINDING|harness)' | cut -c1-140 | tr '\n' '|')"
  [ $code -ne 0 ] && rc=1
done
exit $rc
