#!/usr/bin/env python3
"""Regenerates MANIFEST.json from the table below (kept in one place so that it always validates)."""
import json, os, subprocess, sys
ROOT = os.path.dirname(os.path.dirname(os.path.abspath(__file__)))

BASELINE_OFF = "for m in $(cat /w/out/gomods.txt); do MF=$(cd /repo/$m && . /w/out/goenv.sh && gomodflag); (cd /repo/$m && go test $MF -json -vet=off -count=1 -timeout 25m ./...); done"

CLAIMED = {
 "C09": dict(engine="execsim", design="DESIGN.md §5 C09, §4 E-A",
   text="Seeded search over fault sequences (statement errors, lost / unacknowledged revision writes, revision read errors) and call sequences against the real Executor with a stub database and revision store; oracle = order/resume/stop/no-over-claim/multiplicity/bounded-liveness invariants after every call. Sampling, not enumeration: a clean batch is evidence, not proof.",
   note="Trusts the stub seams (SimDriver, SimRevs) to model a non-transactional database and an all-or-nothing revision write; real code: Executor, MemDir, hashing, scanner.",
   technique="deterministic simulation: seeded fault-sequence search over the Driver/RevisionReadWriter seams, invariants per call, tape shrinking + exact replay"),
}
CLAIMED["C10"] = dict(engine="clisim", design="DESIGN.md §5 C10, §4 E-B, Appendix C",
   text="Seeded search over (crash point x occurrence x tx-mode x directory shape x restart-before/after-lease-expiry x second crash) against the real CLI binary and a real SQLite file; SIGKILL at build-tagged points; oracle = never-ahead, per-mode atomicity, at-most-one-in-flight, multiplicity and bounded liveness checked by an independent SQLite observer after every crash and at completion. Sampling, not enumeration.",
   note="Crash = SIGKILL (no power-loss model); SQLite's journal recovery is trusted; lease time is simulated by rewriting the lease file.",
   technique="deterministic simulation: crash injection at hook points in the real CLI process, seeded crash/restart schedules, state invariants by independent observer, tape shrinking + exact replay")
CLAIMED["C12"] = dict(engine="execsim", design="DESIGN.md §5 C12",
   text="Seeded search over (file length x failure position that creates the partial state x edit kind x edit position, incl. truncation below the applied count) against the real Executor; the partial revision is produced by an injected statement fault; oracle = refused-cleanly / resumes-with-new-tail / never-panics, plus quiescence of the following run.",
   note="Stub database and revision store; real Executor, MemDir, hashing and scanner. The CLI half (real SQLite, exit status instead of recover) is part clisim-c12 when present in the evidence.",
   technique="deterministic simulation: fault-produced partial history + seeded edit sequences, reference oracle, tape shrinking + exact replay")
CLAIMED["C13"] = dict(engine="clisim", design="DESIGN.md §5 C13, Appendix B",
   text="Seeded search over (failing statement position x global tx-mode x per-file txmode directives x count argument x earlier applies) against the real CLI and a real SQLite file; oracle = whole-state equality (schema + every row + revision rows minus label columns, read by an independent observer) with the per-mode state model of Appendix B, then fix + re-hash + re-run must equal a fault-free run.",
   note="'no revision table' == 'empty revision table'; label columns are not compared; SQLite only.",
   technique="deterministic simulation: injected statement failures in the real CLI process, state-model refinement by independent observer, tape shrinking + exact replay")
CLAIMED["C11"] = dict(engine="execsim", design="DESIGN.md §5 C11, Appendix A",
   text="Refinement against a small executable reference model (model.Pending, written from the documented semantics): histories are reached by seeded operator actions (add newer / older file, checkpoint, dirty database, apply n with exec-order / baseline / allow-dirty, injected failing statements that leave partial revisions) and after every apply the executed statements and the error class are compared with the model's decision.",
   note="Fixed-width versions; stub database and revision store in the API half; the CLI half (status / apply n / set on a real SQLite file) is part clisim-c11 when present in the evidence.",
   technique="deterministic simulation: seeded operation + fault sequences, refinement against an executable reference model, tape shrinking + exact replay")
CLAIMED["C06"] = dict(engine="execsim", design="DESIGN.md §5 C06",
   text="Seeded search over interleavings of directory writers (API: WritePlan, WriteCheckpoint, WriteSumFile, CopyFiles; CLI: migrate new/hash/diff/import) with disk faults at the Dir seam (failed, torn, error-after-durable writes of migration files and of atlas.sum) and adversary edits of the storage; oracle = Validate / `migrate validate` / `migrate apply` agree with an independent reference implementation of the sum format, every successful writer leaves the directory valid, every tamper of a valid directory is detected, errors are checksum errors, never a panic.",
   note="Torn writes are simulated at the Dir interface, not at the kernel; SHA-256 collisions excluded; non-.sql files and bodies of sum-ignored files are outside the integrity domain.",
   technique="deterministic simulation: seeded writer/adversary schedules with injected disk faults, reference-model oracle, tape shrinking + exact replay")
CLAIMED["C14"] = dict(engine="clisim", design="DESIGN.md §5 C14",
   text="Seeded search over (dev-url command x initial dev state x failing statement position x crash point inside the replay) against the real CLI with a SQLite file as dev database; oracle by independent observer: a non-empty dev database is refused with the not-clean diagnostic and is logically identical afterwards, an empty one is empty afterwards on success and on every failure path, the migration directory is never written by a replay, the target of schema apply is untouched when the dev replay fails, and after a crash inside a replay the next command refuses the leftovers.",
   note="Logical (sqlite_master + rows) identity, byte identity reported as a probe; no crash point inside migrate lint; with HCL sources the SQLite driver never writes to the dev database, so only 'untouched' is required there.",
   technique="deterministic simulation: injected statement failures and SIGKILL at replay hook points in the real CLI, state invariants by independent observer, tape shrinking + exact replay")
_walk_note = "SQLite only; every desired schema is first accepted by SQLite itself (simulator's own DDL); fault = k-th plan statement fails or the connection is abandoned after it, in a transaction (file) or not (none); known findings are listed in known_findings.txt."
CLAIMED["C01"] = dict(engine="schemasim", design="DESIGN.md §5 C01, §4 E-C",
   text="Seeded random walks of desired schemas on a real SQLite engine with rows inserted between steps and plans that fail or are abandoned midway; after every successful apply the difference to the desired schema is empty and the live catalog (read by an independent observer) equals the catalog of a reference database created from the desired schema by the simulator's own DDL; a failed apply in a transaction leaves the database identical; a fault-free failure must be data-dependent (the same plan succeeds once rows are removed).",
   note=_walk_note, technique="deterministic simulation: seeded desired-state walks with injected statement failures / abandoned connections, reference-database oracle, tape shrinking + exact replay")
CLAIMED["C03"] = dict(engine="schemasim", design="DESIGN.md §5 C03",
   text="On every database state the C01 walk reaches (ALTER-rewritten, rebuilt, left by failed non-transactional applies): exported HCL evaluates back to the inspected schema in both directions, two inspections give identical bytes, and the SQL export recreates the same schema and observer catalog on a fresh engine.",
   note=_walk_note, technique="deterministic simulation: invariants evaluated on history-reached states of the seeded walk, tape shrinking + exact replay")
CLAIMED["C05"] = dict(engine="schemasim", design="DESIGN.md §5 C05",
   text="Conservation oracle over the same walks: per table, row count and the multiset of rows projected on columns that keep name and declared type are unchanged by every successful apply (ALTER path and rebuild path counted separately), tables outside the change set are untouched, and a failed apply in a transaction changes nothing.",
   note=_walk_note, technique="deterministic simulation: conservation invariant over seeded walks with injected plan failures, tape shrinking + exact replay")
CLAIMED["C17"] = dict(engine="schemasim", design="DESIGN.md §5 C17 (SQLite part only)",
   text="For every plan the walk applies successfully: reported reversible only if every schema change has reverse statements; for reversible plans the down sections of all five sqltool formatters are exactly the reverse statements in reverse order, and executing them on the real database restores the starting schema and catalog. MySQL/PostgreSQL are not claimed.",
   note=_walk_note, technique="deterministic simulation: up/down executed on history-reached states of the seeded walk, tape shrinking + exact replay")
CLAIMED["C18"] = dict(engine="clisim", design="DESIGN.md §5 C18",
   text="Seeded operation sequences evolve a migration directory (files derived by `migrate diff` and hand-written destructive/additive/temporary-object forms); `migrate lint --latest N` of the real CLI is compared with a reference model of which tables and non-virtual columns existed before each file: every destructive file gets DS102/DS103 on the causing statement and a failing exit status, additive and temporary-object files get none.",
   note="No fault or schedule dimension exists in this property; this check uses the operation-sequence / reference-model half of the technique only. SQLite only.",
   technique="deterministic simulation (operation sequences vs reference model, no fault dimension): seeded directory histories against the real CLI, tape shrinking + exact replay")
CLAIMED["C20"] = dict(engine="detsim", design="DESIGN.md §5 C20, §3.3",
   text="Seeded schedules over the sources of nondeterminism the outputs could depend on: map iteration order (made a seam by rewriting the map-range sites of a scratch copy of the repository; one seed fixes the order at every seamed site), declaration order of tables/indexes/foreign keys/checks, tape-scheduled interleaving of independent operations at call boundaries, repetition in one process and in fresh processes; oracle = byte equality of plans, formatted files, HCL and directory sums (for declaration order: equal statement content modulo clause order, and on SQLite the same resulting catalog).",
   note="31 of 35 map-range sites are seamed (the rest are listed in the evidence); third-party dependencies are outside the seam; goroutine-level interleaving inside CPU-only code is not owned by the simulator.",
   technique="deterministic simulation: seeded map-order / declaration-order / interleaving schedules over a build-time seam, equality oracle, tape shrinking + exact replay")

NOT_BUILT = {
 "C01": "not built yet in this tree (planned claim, DESIGN \u00a75); listed here so that every unclaimed property has an entry",
 "C03": "not built yet in this tree (planned claim, DESIGN \u00a75); listed here so that every unclaimed property has an entry",
 "C05": "not built yet in this tree (planned claim, DESIGN \u00a75); listed here so that every unclaimed property has an entry",
 "C06": "not built yet in this tree (planned claim, DESIGN \u00a75); listed here so that every unclaimed property has an entry",
 "C10": "not built yet in this tree (planned claim, DESIGN \u00a75); listed here so that every unclaimed property has an entry",
 "C11": "not built yet in this tree (planned claim, DESIGN \u00a75); listed here so that every unclaimed property has an entry",
 "C12": "not built yet in this tree (planned claim, DESIGN \u00a75); listed here so that every unclaimed property has an entry",
 "C13": "not built yet in this tree (planned claim, DESIGN \u00a75); listed here so that every unclaimed property has an entry",
 "C14": "not built yet in this tree (planned claim, DESIGN \u00a75); listed here so that every unclaimed property has an entry",
 "C17": "not built yet in this tree (planned claim, DESIGN \u00a75); listed here so that every unclaimed property has an entry",
 "C18": "not built yet in this tree (planned claim, DESIGN \u00a75); listed here so that every unclaimed property has an entry",
 "C20": "not built yet in this tree (planned claim, DESIGN \u00a75); listed here so that every unclaimed property has an entry"
}

NA = {
 "C02": "pure function of two in-memory schema graphs (no state survives the call, no I/O, clock, schedule or fault to inject); MySQL/PostgreSQL have no engine offline. Needs input enumeration / differential testing, another technique family (DESIGN §6).",
 "C04": "pure graph -> ordered list function (DetachCycles/SortChanges, MySQL/PG planners); the property asks for exhaustive FK-graph enumeration, i.e. model checking, and has no fault or schedule dimension (DESIGN §6).",
 "C07": "formatter template + lexer applied to a string; no schedule, clock, fault or history. The only I/O (writing the file) is covered as integrity by C06 (DESIGN §6).",
 "C08": "a function from an input string to statements or an error; a truncated file is just another input string. Fuzzing territory, not simulation (DESIGN §6).",
 "C15": "marshal/evaluate on in-memory graphs over a type catalogue for three dialects; pure (DESIGN §6). The SQLite slice that depends on database history is exercised by C03.",
 "C16": "tokens of planned SQL as a function of (changes, options), MySQL/PostgreSQL only; pure (DESIGN §6).",
 "C19": "glob matching and change-list filtering against a declarative policy; pure configuration x input, nothing for a fault or schedule to act on (DESIGN §6).",
}

def main():
    checks = []
    for pid in sorted(CLAIMED):
        c = CLAIMED[pid]
        checks.append({
            "property_id": pid,
            "quick_cmd": f"./check {pid} --tier quick",
            "thorough_cmd": f"./check {pid} --tier thorough",
            "evidence_file": f"/verif/evidence/{pid}.json",
            "replay_cmd_template": f"./check {pid} --replay {{path}}",
            "engine": c["engine"],
            "level_claimed": {"category": "exploration", "text": c["text"], "design_ref": c["design"]},
            "level_note": c["note"],
            "technique": c["technique"],
        })
    na = [{"property_id": k, "reason": v} for k, v in sorted({**NA, **NOT_BUILT}.items()) if k not in CLAIMED]
    hooks_commits = []
    try:
        out = subprocess.run(["git", "-C", "/repo", "log", "--format=%H %s"], capture_output=True, text=True).stdout
        hooks_commits = [l.split()[0] for l in out.splitlines() if " verif hooks:" in " " + l.split(" ", 1)[1] or l.split(" ", 1)[1].startswith("verif:")]
    except Exception:
        pass
    m = {
        "version": 1,
        "setup_cmd": "./setup.sh",
        "hooks": {
            "guard": "verif",
            "enable": "go build -tags verif (both the simulator module, which links /repo's packages through a replace directive, and /repo/cmd/atlas). Hook commits: e9ed651 adds simPoint call lines and the verif_on/verif_off files (add-only); 58e2b3f and d7c61ff are the clock seam: besides new files they replace time.Now() by simNow() on four existing lines (identity with the guard off), which is why add_only is false",
            "baseline_off_cmd": BASELINE_OFF,
            "source_commits": hooks_commits,
            # e9ed651 only adds call lines and files. The two clock-seam commits (58e2b3f, d7c61ff) also
            # rewrite four existing lines: time.Now() becomes simNow() in migrate.NewVersion, in the
            # formatters' "now" template function and twice in the SQLite driver's Lock / acquireLock
            # (simNow is time.Now in regular builds) - a call cannot be put behind a seam by adding lines.
            "add_only": False,
        },
        "engines": ENGINES,
        "checks": checks,
        "not_applicable": na,
        "notes": "Technique family: deterministic simulation with fault injection. One VERIF_SEED decides every run (choice tape, shrinkable, exactly replayable). Exit 2 = harness/build/reach trouble, never a VIOLATION line. See DESIGN.md.",
    }
    with open(os.path.join(ROOT, "MANIFEST.json"), "w") as f:
        json.dump(m, f, indent=1)
        f.write("\n")

ENGINES = [
 {"name": "execsim", "path": "sim/execsim", "serves_properties": ["C09", "C11", "C12", "C06"], "kind_free_text": "in-process: real migrate.Executor/dir/scanner/hash against stub database + stub revision store + faulty Dir; faults enter through the stubs"},
 {"name": "clisim", "path": "sim/clisim", "serves_properties": [ "C13", "C14", "C18", "C06", "C11", "C12"], "kind_free_text": "process level: the real CLI built with -tags verif on a real SQLite file, crash (SIGKILL at hook points) and lease adversary, independent SQLite observer"},
 {"name": "schemasim", "path": "sim/schemasim", "serves_properties": ["C01", "C03", "C05", "C17"], "kind_free_text": "in-process: random walk of desired schemas on a real SQLite engine with failing/abandoned plans; reference database + row model"},
 {"name": "detsim", "path": "sim/detsim", "serves_properties": ["C20"], "kind_free_text": "map-iteration-order seam (go/ast rewrite of a scratch copy), declaration-order permutation, interleaving of independent operations, fresh processes"},
]

if __name__ == "__main__":
    main()
