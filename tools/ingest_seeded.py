#!/usr/bin/env python3
"""Helper used while building: copies a sub-agent's deliverables into seeded/<id>/ and writes meta.json.
   usage: ingest_seeded.py <spec.json>   (a list of entries, see the calls in git history)"""
import json, os, shutil, sys
def ingest(e):
    d=f'/verif/seeded/{e["id"]}'
    os.makedirs(d, exist_ok=True)
    src=e['src']
    shutil.copy(f'{src}/deliver/patch.diff', d+'/patch.diff')
    demos=[]
    for dm in e['demos']:
        shutil.copy(f'{src}/deliver/{dm["file"]}', d+'/'+os.path.basename(dm["file"]))
        demos.append({"file":os.path.basename(dm["file"]),"place_at":dm["place"],"run":dm["run"]})
    if os.path.exists(f'{src}/deliver/NOTES.md'):
        shutil.copy(f'{src}/deliver/NOTES.md', d+'/AUTHOR_NOTES.md')
    meta={"id":e['id'],"property":e['property'],"source":"independent sub-agent given only the property text (plus a note which mechanism another participant had already used) and a scratch worktree",
          "needs_to_manifest":e['needs'],"demonstration":demos,
          "confirmed":"tools/confirm_seeded.sh in a fresh scratch worktree: patch applies, both modules build, the existing tests of ./sql/... ./schemahcl/... and cmd/atlas ./... pass with the change, the demonstration fails with the change and passes without it",
          "checks_run":e['ran'],"caught_by":e['caught'],"notes":e.get('notes','')}
    json.dump(meta, open(d+'/meta.json','w'), indent=1); open(d+'/meta.json','a').write('\n')
for e in json.load(open(sys.argv[1])): ingest(e)
