#!/usr/bin/env bash
# Confirms a seeded change independently of the sub-agent that wrote it, in a fresh scratch worktree:
# the patch applies, both modules build, the existing tests pass with it, the demonstration fails
# with it and passes without it.
#   tools/confirm_seeded.sh <patch.diff> <demo-file> <dest-path-relative-to-repo> <module-dir> <go test args...>
# e.g. tools/confirm_seeded.sh p.diff zz_demo_test.go cmd/atlas/internal/cmdapi/zz_demo_test.go cmd/atlas -run TestDemoC09 ./internal/cmdapi/
set -u
PATCH=$(readlink -f "$1"); DEMO=$(readlink -f "$2"); DEST=$3; MOD=$4; shift 4
export GOFLAGS=-mod=mod GOPROXY=off GIT_CONFIG_GLOBAL=/dev/null
WT=$(mktemp -d /tmp/confirm-XXXXXX)
mkdir -p "$WT/tmp"; export TMPDIR="$WT/tmp"   # sql/sqlite lock tests use the shared temp dir
git -C /repo worktree add -q --detach "$WT/repo" HEAD || exit 2
cleanup() { git -C /repo worktree remove --force "$WT/repo"; rm -rf "$WT"; }
cd "$WT/repo"
git apply "$PATCH" || { echo "RESULT patch-does-not-apply"; cleanup; exit 1; }
( go build ./... && cd cmd/atlas && go build ./... ) > "$WT/build.log" 2>&1 || { echo "RESULT build-fails"; tail -5 "$WT/build.log"; cleanup; exit 1; }
( go test -vet=off -count=1 ./sql/... ./schemahcl/... && cd cmd/atlas && go test -vet=off -count=1 ./... ) > "$WT/tests.log" 2>&1
if grep -q "^FAIL\|^--- FAIL" "$WT/tests.log"; then echo "RESULT existing-tests-fail-with-change"; grep "^FAIL\|^--- FAIL" "$WT/tests.log" | head; cleanup; exit 1; fi
echo "existing tests pass with the change ($(grep -c '^ok' "$WT/tests.log") packages ok)"
mkdir -p "$(dirname "$DEST")"; cp "$DEMO" "$DEST"
# EXTRA="src:dest,src:dest": further demonstration files to place.
if [ -n "${EXTRA:-}" ]; then IFS=, read -ra PAIRS <<< "$EXTRA"; for p in "${PAIRS[@]}"; do mkdir -p "$(dirname "${p#*:}")"; cp "${p%%:*}" "${p#*:}"; done; fi
( cd "$MOD" && go test -vet=off -count=1 "$@" ) > "$WT/demo_with.log" 2>&1; with=$?
git apply -R "$PATCH"
( cd "$MOD" && go test -vet=off -count=1 "$@" ) > "$WT/demo_without.log" 2>&1; without=$?
echo "demo with change: exit $with; without change: exit $without"
if [ $with -ne 0 ] && [ $without -eq 0 ]; then echo "RESULT confirmed"; rc=0; else echo "RESULT demo-does-not-discriminate"; tail -5 "$WT/demo_with.log" "$WT/demo_without.log"; rc=1; fi
cleanup
exit $rc
