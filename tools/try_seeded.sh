#!/usr/bin/env bash
# Tries a seeded change without touching /repo: applies <patch> to a fresh scratch worktree of
# /repo's HEAD, runs the quick tier of the given checks against it, removes the worktree.
#   tools/try_seeded.sh <patch.diff> <property>...
set -u
ROOT=$(cd "$(dirname "${BASH_SOURCE[0]}")/.." && pwd)
PATCH=$(readlink -f "$1"); shift
WT=$(mktemp -d /tmp/seeded-XXXXXX)
git -C /repo worktree add -q --detach "$WT/repo" HEAD || exit 2
git -C "$WT/repo" apply "$PATCH" || { echo "patch does not apply"; git -C /repo worktree remove --force "$WT/repo"; rm -rf "$WT"; exit 2; }
mkdir -p "$WT/out"
for id in "$@"; do
  out=$(VERIF_OUT="$WT/out" VERIF_REPO="$WT/repo" VERIF_BUILD="$WT/build" "$ROOT/check" "$id" 2>&1); code=$?
  echo "== $id exit=$code"
  echo "$out" | grep -E "^(part=|VIOLATION|KNOWN|OK|harness|  invariant)" | cut -c1-220
  if [ $code -eq 1 ]; then
    f=$(echo "$out" | grep -m1 '^VIOLATION' | sed 's/.*replay=//')
    [ -n "$f" ] && python3 -c "
import json,sys
r=json.load(open('$f'))
print('   shrunk tape', len(r['tape'] or []), 'of', r['unshrunk_tape_len'], 'replay_exact', r['replay_exact'])
for l in (r['scenario'] or [])[:12]: print('   |', l[:200])
print('   detail:', r['violation']['detail'][:400])
"
  fi
done
git -C /repo worktree remove --force "$WT/repo"; rm -rf "$WT"
