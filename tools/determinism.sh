#!/usr/bin/env bash
# Determinism self-test: the same VERIF_SEED must give the same trace hash for every run,
# whatever the process, GOMAXPROCS and worker count. Prints one line per part; exit 1 on divergence.
#   tools/determinism.sh [runs-per-inprocess-part] [runs-per-process-level-part]
set -u
ROOT=$(cd "$(dirname "${BASH_SOURCE[0]}")/.." && pwd)
REPO=${VERIF_REPO:-/repo}
. "$ROOT/lib/build.sh"
build_sim || exit 2
build_cli || exit 2
build_seamed > /dev/null || exit 2
export ATLAS_BIN=$BUILD/atlas-verif VERIF_ROOT=$ROOT
N1=${1:-200}; N2=${2:-60}
OUT=$(mktemp -d)
fail=0
run_part() { # bin property part runs
  local bin=$1 prop=$2 part=$3 n=$4 i=0
  for gmp in 1 4 16; do for w in 1 16; do for rep in 1 2 3 4 5; do
    i=$((i+1))
    ( GOMAXPROCS=$gmp VERIF_WORKERS=$w VERIF_SEED=${VERIF_SEED:-1} "$bin" hashes "$prop" "$part" "$n" > "$OUT/$part.$i" 2>/dev/null ) &
    if [ $((i % 6)) -eq 0 ]; then wait; fi
  done; done; done
  wait
  local ref="$OUT/$part.1" bad=0
  for f in "$OUT/$part".*; do cmp -s "$ref" "$f" || bad=$((bad+1)); done
  local lines; lines=$(wc -l < "$ref")
  if [ "$bad" -ne 0 ] || [ "$lines" -ne "$n" ]; then echo "DIVERGED $prop/$part: $bad of $i processes differ (lines=$lines)"; fail=1; diff "$ref" "$(ls "$OUT/$part".* | tail -1)" | head -5
  else echo "ok $prop/$part: $i processes x $n runs identical (GOMAXPROCS 1/4/16, workers 1/16)"; fi
}
run_part "$BUILD/verifsim" C09 execsim-c09 "$N1"
run_part "$BUILD/verifsim" C11 execsim-c11 "$N1"
run_part "$BUILD/verifsim" C12 execsim-c12 "$N1"
run_part "$BUILD/verifsim" C06 execsim-c06 "$N1"
run_part "$BUILD/verifsim" C01 schemasim-c01 "$N1"
run_part "$BUILD/verifsim" C03 schemasim-c03 "$N1"
run_part "$BUILD/verifsim" C05 schemasim-c05 "$N1"
run_part "$BUILD/verifsim" C17 schemasim-c17 "$N1"
run_part "$BUILD/verifsim" C10 clisim-c10 "$N2"
run_part "$BUILD/verifsim" C13 clisim-c13-apply "$N2"
run_part "$BUILD/verifsim" C13 clisim-c13-schema "$N2"
run_part "$BUILD/verifsim" C13 clisim-c13-dryrun "$N2"
run_part "$BUILD/verifsim" C13 clisim-c13-commit "$N2"
run_part "$BUILD/verifsim" C13 clisim-c13-baseline "$N2"
run_part "$BUILD/verifsim" C09 clisim-c09-busy "$N2"
run_part "$BUILD/verifsim" C11 clisim-c11 "$N2"
run_part "$BUILD/verifsim" C12 clisim-c12 "$N2"
run_part "$BUILD/verifsim" C06 clisim-c06 "$N2"
run_part "$BUILD/verifsim" C14 clisim-c14 "$N2"
run_part "$BUILD/verifsim" C18 clisim-c18 "$N2"
run_part "$BUILD/verifsim-seamed" C20 detsim-c20 "$N2"
run_part "$BUILD/verifsim-seamed" C20 detsim-c20-procs 20
rm -rf "$OUT"
exit $fail
