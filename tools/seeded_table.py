#!/usr/bin/env python3
"""Rewrites the table of DESIGN.md §12 from seeded/*/meta.json."""
import json, glob, os, re
ROOT=os.path.dirname(os.path.dirname(os.path.abspath(__file__)))
rows=[]
for f in sorted(glob.glob(os.path.join(ROOT,'seeded','*','meta.json'))):
    m=json.load(open(f))
    caught='; '.join(f"**{k}**: {v}" for k,v in m['caught_by'].items())
    rows.append(f"| `{m['id']}` | {m['property']} | {m['needs_to_manifest']} | {caught} |")
table="| seeded change | property | needs, in order to manifest | result |\n|---|---|---|---|\n"+"\n".join(rows)
p=os.path.join(ROOT,'DESIGN.md')
s=open(p).read()
begin,end='<!-- seeded-table:begin -->','<!-- seeded-table:end -->'
if 'SEEDED_TABLE_PLACEHOLDER' in s:
    s=s.replace('SEEDED_TABLE_PLACEHOLDER', begin+'\n'+table+'\n'+end)
else:
    s=re.sub(re.escape(begin)+'.*?'+re.escape(end), lambda _: begin+'\n'+table+'\n'+end, s, flags=re.S)
open(p,'w').write(s)
print(len(rows),'rows')
